"""Driver: shards a property's workload over worker subprocesses that run the real
adcgen code from the current working tree of the repository under the monitors,
merges what the monitors observed, classifies against known_findings.json, writes
evidence/<ID>.json and prints the verdict lines the interface prescribes."""
import concurrent.futures
import hashlib
import importlib
import json
import os
import shutil
import subprocess
import sys
import tempfile
import time

ROOT = os.path.dirname(os.path.dirname(os.path.abspath(__file__)))
REPO = os.environ.get('VERIF_REPO', '/repo')
DEPS = os.path.join(ROOT, '.deps')
PY = '/venv/bin/python'
WHEELS = '/opt/veriftools/wheels'
GUARD = 'ADCGEN_VERIF_MONITORS'
NCPU = min(16, os.cpu_count() or 4)

LEVELS = {}


def ensure_deps():
    """numpy / icontract / deal beside the repository's interpreter (offline)."""
    ok = all(os.path.isdir(os.path.join(DEPS, d))
             for d in ('numpy', 'icontract', 'deal'))
    if ok:
        return
    os.makedirs(DEPS, exist_ok=True)
    cmd = [PY, '-m', 'pip', 'install', '-q', '--no-index', '--find-links',
           WHEELS, '--target', DEPS, '--upgrade', 'numpy', 'icontract', 'deal']
    r = subprocess.run(cmd, capture_output=True, text=True)
    if r.returncode:
        print(r.stdout, r.stderr)
        raise SystemExit("setup: installing numpy/icontract/deal failed")


def worker_env(seed, extra=None):
    env = dict(os.environ)
    env['PYTHONPATH'] = os.pathsep.join([REPO, ROOT, DEPS])
    env[GUARD] = '1'
    env.setdefault('PYTHONHASHSEED', '0')
    env['VERIF_SEED'] = str(seed)
    env['OMP_NUM_THREADS'] = '1'
    env['OPENBLAS_NUM_THREADS'] = '1'
    if extra:
        env.update(extra)
    return env


def load_known():
    path = os.path.join(ROOT, 'known_findings.json')
    with open(path) as f:
        return json.load(f)['findings']


def case_digest(case):
    return hashlib.sha256(json.dumps(case, sort_keys=True, default=str)
                          .encode()).hexdigest()[:12]


def run_batch(prop, batch, seed, tmpdir, n, timeout, env_extra=None):
    inp = os.path.join(tmpdir, f'in_{n}.json')
    out = os.path.join(tmpdir, f'out_{n}.jsonl')
    with open(inp, 'w') as f:
        json.dump(batch, f)
    cmd = [PY, '-B', '-m', 'vlib.worker', prop, inp, out]
    t0 = time.time()
    status = 'ok'
    try:
        r = subprocess.run(cmd, env=worker_env(seed, env_extra), cwd=tmpdir,
                           capture_output=True, text=True, timeout=timeout)
        if r.returncode != 0:
            status = f'worker_exit_{r.returncode}'
        stderr = r.stderr[-4000:]
    except subprocess.TimeoutExpired as ex:
        status = 'worker_timeout'
        stderr = (ex.stderr or b'')[-4000:]
        if isinstance(stderr, bytes):
            stderr = stderr.decode(errors='replace')
    results = []
    if os.path.exists(out):
        with open(out) as f:
            for line in f:
                line = line.strip()
                if line:
                    try:
                        results.append(json.loads(line))
                    except ValueError:
                        pass
    done = {r['case_id'] for r in results}
    for c in batch:
        if c['id'] not in done:
            results.append({'case_id': c['id'], 'status': 'lost',
                            'detail': f'{status}: {stderr[-1500:]}',
                            'counters': {}, 'nontrivial': False,
                            'fingerprint': None})
    return results, time.time() - t0


def match_known(prop, res, known):
    """open known finding whose mechanism tag the violating case carries"""
    tags = set(res.get('tags') or [])
    for k in known:
        if k['property'] == prop and k['status'] == 'open' and \
                k['mechanism_tag'] in tags:
            return k
    return None


def main(argv=None):
    import argparse
    ap = argparse.ArgumentParser()
    ap.add_argument('prop')
    ap.add_argument('--tier', default=os.environ.get('VERIF_TIER', 'quick'))
    ap.add_argument('--replay')
    ap.add_argument('--workers', type=int, default=NCPU)
    ap.add_argument('--limit', type=int, default=0)
    ap.add_argument('--only', default='')
    a = ap.parse_args(argv)
    prop = a.prop.upper()
    tier = a.tier if a.tier in ('quick', 'thorough') else 'quick'
    try:
        seed = int(os.environ.get('VERIF_SEED', '0'))
    except ValueError:
        seed = 0
    ensure_deps()
    sys.path[:0] = [DEPS]
    mod = importlib.import_module(f'vlib.props.{prop.lower()}')
    t0 = time.time()
    tmpdir = tempfile.mkdtemp(prefix=f'verif_{prop}_')
    try:
        if a.replay:
            return replay(prop, mod, a.replay, seed, tmpdir)
        return run(prop, mod, tier, seed, tmpdir, a, t0)
    finally:
        shutil.rmtree(tmpdir, ignore_errors=True)


def replay(prop, mod, path, seed, tmpdir):
    with open(path) as f:
        rp = json.load(f)
    case = rp['case']
    results, _ = run_batch(prop, [case], rp.get('seed', seed), tmpdir, 0,
                           getattr(mod, 'CASE_TIMEOUT', 600) * 2 + 60,
                           getattr(mod, 'ENV', None))
    res = results[0]
    print(json.dumps(res, indent=1, default=str)[:6000])
    if res['status'] == 'violation':
        print(f"VIOLATION property={prop} replay={path}")
        return 1
    return 0 if res['status'] in ('ok', 'refused', 'skipped') else 2


def run(prop, mod, tier, seed, tmpdir, a, t0):
    cases = mod.gen_cases(tier, seed)
    if a.only:
        cases = [c for c in cases if a.only in c['id']]
    if a.limit:
        cases = cases[:a.limit]
    for c in cases:
        c.setdefault('prop', prop)
    bsize = getattr(mod, 'BATCH', 1)
    # heavy cases first, then batches in generation order
    cases_sorted = sorted(cases, key=lambda c: -c.get('cost', 1))
    batches = [cases_sorted[k:k + bsize]
               for k in range(0, len(cases_sorted), bsize)]
    case_timeout = getattr(mod, 'CASE_TIMEOUT', 300)
    known = load_known()
    results = []
    with concurrent.futures.ThreadPoolExecutor(max_workers=a.workers) as ex:
        futs = [ex.submit(run_batch, prop, b, seed, tmpdir, n,
                          sum(c.get('timeout', case_timeout) for c in b) + 120,
                          getattr(mod, 'ENV', None))
                for n, b in enumerate(batches)]
        for f in concurrent.futures.as_completed(futs):
            rs, _ = f.result()
            results.extend(rs)
    by_id = {c['id']: c for c in cases}
    order = {c['id']: n for n, c in enumerate(cases)}
    results.sort(key=lambda r: order.get(r['case_id'], 1 << 30))
    # optional cross-case (history / offline log) checker
    if hasattr(mod, 'post_check'):
        results.extend(mod.post_check(cases, results, tier, seed))

    counters = {}
    status_count = {}
    fingerprints = set()
    known_seen = {}
    violations = []
    inconclusive = []
    for r in results:
        status_count[r['status']] = status_count.get(r['status'], 0) + 1
        for k, v in (r.get('counters') or {}).items():
            if isinstance(v, (int, float)):
                counters[k] = counters.get(k, 0) + v
        if r.get('nontrivial') and r.get('fingerprint'):
            fingerprints.add(r['fingerprint'])
        if r['status'] == 'violation':
            k = match_known(prop, r, known)
            if k is not None:
                known_seen.setdefault(k['id'], [k, 0])[1] += 1
            else:
                violations.append(r)
        elif r['status'] in ('lost', 'timeout', 'harness_error'):
            inconclusive.append(r)

    # the modules state the design floors (about what the deterministic workload
    # delivers divided by 2-3); the enforced floor leaves room for the variation
    # between seeds: a deciding monitor must have seen >= 40% of the design floor
    floors = mod.floors(tier) if hasattr(mod, 'floors') else {}
    floors = {k: int(0.4 * v) for k, v in floors.items()}
    scale = 1.0
    if a.limit or a.only:
        scale = 0.0
    below = {k: (counters.get(k, 0), v) for k, v in floors.items()
             if counters.get(k, 0) < v * scale}
    n_eval = sum(v for k, v in status_count.items()
                 if k in ('ok', 'violation', 'refused'))
    max_incon = max(2, int(0.1 * len(cases)))
    verdict = 'held'
    if violations:
        verdict = 'violated'
    elif below or len(inconclusive) > max_incon or n_eval == 0:
        verdict = 'inconclusive'

    # evidence -----------------------------------------------------------------
    samples = []
    for r in results:
        if r['status'] == 'ok' and r.get('nontrivial') and len(samples) < 4:
            c = by_id.get(r['case_id'])
            samples.append({'case': c, 'observed': r.get('observed')})
    if not samples and cases:
        samples.append({'case': cases[0], 'observed': None})
    level = getattr(mod, 'LEVEL', 'exploration')
    coverage = {
        'evaluations': n_eval,
        'distinct_nontrivial': len(fingerprints),
        'rule': getattr(mod, 'RULE', ''),
        'samples': samples,
        'cases_generated': len(cases),
        'status_counts': status_count,
        'monitor_counters': counters,
        'deciding_floors': floors,
        'known_findings_seen': {k: n for k, (_, n) in known_seen.items()},
        'inconclusive_cases': [{'case_id': r['case_id'], 'status': r['status'],
                                'detail': str(r.get('detail'))[:300]}
                               for r in inconclusive[:10]],
        'verdict': verdict,
        'repo': REPO,
        'repo_head': _git_head(),
    }
    if level == 'translation_validation':
        coverage['programs'] = int(counters.get('programs', n_eval))
        coverage['disagreements_checked'] = int(
            counters.get('disagreements_checked', 0))
    ev = {
        'property_id': prop, 'tier': tier, 'seed': seed, 'level': level,
        'coverage': coverage,
        'assumptions': getattr(mod, 'ASSUMPTIONS', []),
        'wall_s': round(time.time() - t0, 2),
        'violations': len(violations),
    }
    # evidence describes full runs against the repository itself: partial runs
    # (--only / --limit) and runs against a scratch worktree (VERIF_REPO) write
    # their record next to it instead
    partial = bool(a.limit or a.only) or os.path.realpath(REPO) != '/repo' \
        or bool(os.environ.get('VERIF_SCRATCH'))
    os.makedirs(os.path.join(ROOT, 'evidence'), exist_ok=True)
    evname = f'{prop}.partial.json' if partial else f'{prop}.json'
    with open(os.path.join(ROOT, 'evidence', evname), 'w') as f:
        json.dump(ev, f, indent=1, default=str)
        f.write('\n')

    # verdict lines --------------------------------------------------------------
    print(f"[{prop}] tier={tier} seed={seed} cases={len(cases)} "
          f"evaluated={n_eval} distinct_nontrivial={len(fingerprints)} "
          f"status={status_count} wall={time.time() - t0:.1f}s")
    print(f"[{prop}] monitor counters: "
          + json.dumps({k: counters[k] for k in sorted(counters)}))
    for kid, (k, n) in sorted(known_seen.items()):
        print(f"KNOWN-FINDING: property={prop} {k['what_fails']} "
              f"[{kid}, seen {n}x]")
    if violations:
        os.makedirs(os.path.join(ROOT, 'replays'), exist_ok=True)
        shown = 0
        seen_paths = set()
        for r in violations:
            c = by_id.get(r['case_id'], {'id': r['case_id']})
            path = os.path.join('replays', f"{prop}-{case_digest(c)}.json")
            if path in seen_paths:
                continue
            seen_paths.add(path)
            with open(os.path.join(ROOT, path), 'w') as f:
                json.dump({'property': prop, 'seed': seed, 'tier': tier,
                           'case': c, 'result': r}, f, indent=1, default=str)
            if shown < 10:
                print(f"  witness {r['case_id']}: "
                      f"{str(r.get('detail'))[:400]}")
                print(f"VIOLATION property={prop} replay={path}")
                shown += 1
        print(f"[{prop}] {len(violations)} violating cases")
        return 1
    if verdict == 'inconclusive':
        print(f"INCONCLUSIVE property={prop} below_floor={below} "
              f"inconclusive_cases={len(inconclusive)}")
        for r in inconclusive[:5]:
            print(f"  {r['case_id']}: {r['status']} "
                  f"{str(r.get('detail'))[-600:]}")
        return 2
    print(f"[{prop}] held on what was observed")
    return 0


def _git_head():
    try:
        return subprocess.run(['git', '-C', REPO, 'rev-parse', '--short',
                               'HEAD'], capture_output=True,
                              text=True).stdout.strip()
    except OSError:
        return ''


if __name__ == '__main__':
    sys.exit(main())
