"""Random expression generator producing the plain-data IR of vlib.ir.

Terms are generated with a guaranteed Einstein structure: every target index occurs
exactly once, every contracted index at least twice (sometimes three times =
hyper-contraction), tensors respect their slot constraints (amplitudes: virtual
upper / occupied lower)."""
import copy

from . import ir

# name, kind, n_up, n_lo, slot rule ('any' | 'amp' | 'vo' ...)
CATALOGUE = [
    dict(name='V', t='anti', nu=2, nl=2, rule='any', w=4),
    dict(name='f', t='anti', nu=1, nl=1, rule='any', w=3),
    dict(name='t1', t='amp', nu=2, nl=2, rule='amp', w=3),
    dict(name='t2', t='amp', nu=1, nl=1, rule='amp', w=2),
    dict(name='t2', t='amp', nu=2, nl=2, rule='amp', w=2),
    dict(name='X', t='amp', nu=1, nl=1, rule='amp', w=1),
    dict(name='Y', t='amp', nu=2, nl=2, rule='amp', w=1),
    dict(name='d', t='anti', nu=1, nl=1, rule='any', w=2),
    dict(name='d', t='anti', nu=2, nl=2, rule='any', w=1),
    dict(name='v', t='sym', nu=2, nl=2, rule='any', w=1),
    dict(name='w', t='anti', nu=2, nl=1, rule='any', w=1),
    dict(name='x', t='non', nu=2, nl=0, rule='any', w=2),
    dict(name='y', t='non', nu=3, nl=0, rule='any', w=1),
    dict(name='z', t='non', nu=1, nl=0, rule='any', w=1),
    dict(name='s', t='sym', nu=1, nl=1, rule='any', w=1),
]

POOLS = {
    'occ': ['i', 'j', 'k', 'l', 'm', 'n', 'i1', 'j2'],
    'virt': ['a', 'b', 'c', 'd', 'e', 'f', 'a1', 'b2'],
    'general': ['p', 'q', 'r', 's'],
}

PREFS = ['1', '-1', '2', '1/2', '-1/4', 'sqrt(2)', 'sqrt(3)/3', '3/7', '-2/3',
         '1/sqrt(2)', '-sqrt(6)/2']


class ExprGen:
    def __init__(self, rng, catalogue=None, general=0.15, spin=False,
                 bk=None, hyper=0.08, exponents=0.1, deltas=0.0, symbols=0.1,
                 brackets=0.0, max_pool=6):
        self.r = rng
        self.cat = catalogue or CATALOGUE
        self.general = general
        self.spin = spin
        self.bk = bk or {}
        self.hyper = hyper
        self.exponents = exponents
        self.deltas = deltas
        self.symbols = symbols
        self.brackets = brackets
        self.max_pool = max_pool

    # -- helpers ------------------------------------------------------------------
    def pick_space(self):
        x = self.r.random()
        if x < self.general:
            return 'general'
        return 'occ' if x < self.general + (1 - self.general) / 2 else 'virt'

    def slot_spaces(self, entry):
        if entry['rule'] == 'amp':
            return ['virt'] * entry['nu'] + ['occ'] * entry['nl']
        return [self.pick_space() for _ in range(entry['nu'] + entry['nl'])]

    def pick_entry(self, names=None):
        cat = [e for e in self.cat if names is None or e['name'] in names]
        return self.r.choices(cat, [e['w'] for e in cat])[0]

    def fresh(self, space, used, spin=''):
        pool = [s for s in POOLS[space][:self.max_pool]
                if (s + (':' + spin if spin else '')) not in used]
        if not pool:
            for s in ir.name_sequence(space, 8):
                if (s + (':' + spin if spin else '')) not in used:
                    pool = [s]
                    break
        s = self.r.choice(pool)
        return s + (':' + spin if spin else '')

    # -- terms ------------------------------------------------------------------
    def term(self, targets=None, nobj=None, names=None):
        """targets: list of IR indices that must each occur exactly once (or None:
        choose 0-4 at random). Returns an IR term or None if impossible."""
        r = self.r
        nobj = nobj or r.choice([1, 2, 2, 3, 3, 4])
        for _ in range(30):
            entries = [self.pick_entry(names) for _ in range(nobj)]
            slots = []      # (obj number, position, space)
            for n, e in enumerate(entries):
                for k, sp in enumerate(self.slot_spaces(e)):
                    slots.append([n, k, sp])
            if targets is None:
                nt = r.choice([0, 0, 1, 2, 2, 3, 4])
                tg = None
            else:
                tg = list(targets)
                nt = len(tg)
            if nt > len(slots):
                continue
            r.shuffle(slots)
            assign = {}
            used = set(tg or [])
            ok = True
            free = list(range(len(slots)))
            # place targets
            chosen_targets = []
            if tg is None:
                for _k in range(nt):
                    j = free.pop()
                    sp = slots[j][2]
                    spin = r.choice('ab') if self.spin and r.random() < 0.7 \
                        else ''
                    s = self.fresh(sp, used, spin)
                    used.add(s)
                    assign[j] = s
                    chosen_targets.append(s)
            else:
                for s in tg:
                    sp = ir.index_space(ir.split_index(s)[0])
                    cand = [j for j in free if slots[j][2] == sp or
                            (entries[slots[j][0]]['rule'] != 'amp'
                             and r.random() < 0.5)]
                    cand = [j for j in cand
                            if entries[slots[j][0]]['rule'] != 'amp'
                            or slots[j][2] == sp]
                    if not cand:
                        ok = False
                        break
                    j = r.choice(cand)
                    free.remove(j)
                    slots[j][2] = sp
                    assign[j] = s
                chosen_targets = tg
            if not ok:
                continue
            # pair up the remaining slots by space
            by_space = {}
            for j in free:
                by_space.setdefault(slots[j][2], []).append(j)
            contracted = []
            for sp, js in by_space.items():
                r.shuffle(js)
                while len(js) >= 2:
                    a, b = js.pop(), js.pop()
                    spin = r.choice('ab') if self.spin and r.random() < 0.5 \
                        else ''
                    s = self.fresh(sp, used, spin)
                    used.add(s)
                    assign[a] = assign[b] = s
                    contracted.append((s, sp))
                    if js and r.random() < self.hyper:
                        assign[js.pop()] = s
                if js:  # one slot left: third occurrence of a contracted index
                    same = [s for s, sp2 in contracted if sp2 == sp]
                    if same:
                        assign[js.pop()] = r.choice(same)
                    else:
                        ok = False
            if not ok:
                continue
            objs = []
            for n, e in enumerate(entries):
                idx = [None] * (e['nu'] + e['nl'])
                for j, (on, k, _) in enumerate(slots):
                    if on == n:
                        idx[k] = assign[j]
                o = {'t': e['t'], 'name': e['name'], 'up': idx[:e['nu']]}
                if e['t'] != 'non':
                    o['lo'] = idx[e['nu']:]
                    o['bk'] = self.bk.get(e['name'], 0)
                    if e['nu'] != e['nl']:
                        o['bk'] = 0
                if r.random() < self.exponents and not chosen_targets_on(
                        o, chosen_targets):
                    o['exp'] = 2
                objs.append(o)
            if r.random() < self.symbols:
                so = {'t': 'sym0', 'name': r.choice(['alpha', 'omega'])}
                if r.random() < 0.45:     # powers of a plain symbol (also in the
                    so['exp'] = r.choice([2, 2, 3, -1, -2])     # denominator)
                objs.append(so)
                if r.random() < 0.25:
                    objs.append({'t': 'sym0', 'name': 'alpha'
                                 if so['name'] == 'omega' else 'omega'})
            term = {'pref': r.choice(PREFS), 'objs': objs}
            if self.is_zero(term):
                continue
            return term
        return None

    @staticmethod
    def is_zero(term):
        for o in term['objs']:
            if o['t'] in ('anti', 'amp'):
                for grp in (o['up'], o.get('lo', [])):
                    if len(set(grp)) < len(grp):
                        return True
        return False

    def alpha_rename(self, term, targets):
        """injective renaming of the contracted indices (within space and spin)
        + random permutations inside antisymmetric/symmetric index groups with the
        compensating sign: an alpha-equivalent copy of the term (same value)."""
        r = self.r
        cnt = ir.term_indices(term)
        contracted = [s for s in cnt if s not in targets]
        used = set(cnt) | set(targets)
        mapping = {}
        for s in contracted:
            n, sp = ir.split_index(s)
            # half of the time reuse the names (a permutation), else new names
            mapping[s] = None
        names_by = {}
        for s in contracted:
            n, sp = ir.split_index(s)
            names_by.setdefault((ir.index_space(n), sp), []).append(s)
        for (space, sp), lst in names_by.items():
            if r.random() < 0.5:
                new = list(lst)
                r.shuffle(new)
            else:
                new = []
                for _ in lst:
                    s2 = self.fresh(space, used | set(new), sp)
                    new.append(s2)
            for a, b in zip(lst, new):
                mapping[a] = b
        t2 = ir.rename_term(term, mapping)
        sign = 1
        for o in t2['objs']:
            if o['t'] in ('anti', 'amp', 'sym'):
                for key in ('up', 'lo'):
                    g = o.get(key, [])
                    if len(g) >= 2 and r.random() < 0.5:
                        perm = list(range(len(g)))
                        r.shuffle(perm)
                        o[key] = [g[k] for k in perm]
                        if o['t'] != 'sym':
                            inv = sum(1 for a in range(len(perm))
                                      for b in range(a + 1, len(perm))
                                      if perm[a] > perm[b])
                            if inv % 2:
                                e = abs(o.get('exp', 1))
                                if e % 2:
                                    sign = -sign
                if o.get('bk', 0) and len(o['up']) == len(o.get('lo', [])) \
                        and r.random() < 0.5:
                    o['up'], o['lo'] = o['lo'], o['up']
                    if o['bk'] == -1 and abs(o.get('exp', 1)) % 2:
                        sign = -sign
        r.shuffle(t2['objs'])
        return t2, sign, mapping


def chosen_targets_on(o, targets):
    return any(s in targets for s in ir.obj_index_list(o))


def scale_pref(pref, factor):
    return f'({pref})*({factor})'
