"""Worker process: runs cases of one property against the real adcgen code."""
import faulthandler
import importlib
import json
import os
import signal
import sys
import time
import traceback

from .common import (CaseResult, CaseTimeout, LibCrash, MonitorViolation,
                     Refused)
from . import ir as _ir


def _alarm(signum, frame):
    raise CaseTimeout()


def main():
    prop, inp, out = sys.argv[1:4]
    faulthandler.enable()
    mod = importlib.import_module(f'vlib.props.{prop.lower()}')
    with open(inp) as f:
        cases = json.load(f)
    signal.signal(signal.SIGALRM, _alarm)
    default_to = getattr(mod, 'CASE_TIMEOUT', 300)
    if hasattr(mod, 'worker_init'):
        mod.worker_init()
    with open(out, 'a') as fo:
        for case in cases:
            res = CaseResult(case)
            t0 = time.time()
            signal.alarm(int(case.get('timeout', default_to)))
            _f0 = _ir.FACTORY_CHECKS[0]
            try:
                mod.run_case(case, res)
            except CaseTimeout:
                res.status = 'timeout'
                res.detail = 'per-case watchdog fired (inconclusive)'
            except Refused as ex:
                if res.status == 'ok':
                    res.status = 'refused'
                    res.detail = f'refused: {ex}'
            except LibCrash as ex:
                res.violation(f'undocumented exception from the library: {ex}',
                              tags=ex.tags)
            except MonitorViolation as ex:
                res.violation(str(ex))
            except Exception as ex:  # noqa: BLE001 - a bug of the harness
                if res.status != 'violation':
                    res.status = 'harness_error'
                    res.detail = (f'{type(ex).__name__}: {ex}\n'
                                  + traceback.format_exc()[-3000:])
            finally:
                signal.alarm(0)
            if _ir.FACTORY_CHECKS[0] > _f0:
                res.counters['index_registry_checks'] = \
                    _ir.FACTORY_CHECKS[0] - _f0
            res.counters['wall_s'] = round(time.time() - t0, 3)
            fo.write(json.dumps(res.to_json(), default=str) + '\n')
            fo.flush()
    if hasattr(mod, 'worker_exit'):
        mod.worker_exit()


if __name__ == '__main__':
    main()
