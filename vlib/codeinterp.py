"""Independent interpreter for the text emitted by adcgen.generate_code (einsum and
libtensor syntax).  Names are bound to TM blocks through the harness's own reverse
naming table; index strings are tokenised as letter+digits (the rule adcgen documents
for index strings)."""
import re

import numpy as np


class InterpError(Exception):
    pass


def tok(s):
    out = re.findall(r'[a-z]\d*', s)
    if ''.join(out) != s:
        raise InterpError(f'can not tokenise index string {s!r}')
    return out


def space_of(name):
    c = name[0]
    return 'o' if c in 'ijklmno' else ('v' if c in 'abcdefgh' else 'g')


class Binder:
    """reverse naming table: emitted name + index names -> TM array
    catalogue: {tensor name: (kind, n_upper | None)} of the source expression;
    has_delta / has_d decide what d_<block> means (F9: both present = ambiguous)"""

    def __init__(self, model, catalogue, has_delta, spins=None):
        self.m = model
        self.cat = catalogue
        self.has_delta = has_delta
        self.spins = spins or {}

    def dom(self, idx_name):
        sp = {'o': 'occ', 'v': 'virt', 'g': 'general'}[space_of(idx_name)]
        return self.m.space_domain(sp, self.spins.get(idx_name, ''))

    def scalar(self, name):
        return self.m.scalar(name)

    def tensor(self, name, idx):
        """array with axes in the order of idx (the object's .idx order)"""
        m = self.m
        doms = [self.dom(s) for s in idx]
        n = len(idx)
        mm = re.fullmatch(r'hf\.f([ovg]{2})', name)
        if mm:
            self._check_block(mm.group(1), idx, name)
            return m.tensor_block('anti', 'f', doms[:1], doms[1:])
        mm = re.fullmatch(r'(?:hf\.|i_)([ovg]{4})', name)
        if mm:
            self._check_block(mm.group(1), idx, name)
            return m.tensor_block('anti', 'V', doms[:2], doms[2:])
        mm = re.fullmatch(r't(\d)_(\d+)(cc)?', name)
        if mm:
            k, order, cc = int(mm.group(1)), mm.group(2), mm.group(3) or ''
            if n != 2 * k:
                raise InterpError(f'{name} used with {n} indices')
            # amplitude .idx = lower (occ) then upper (virt)
            arr = m.tensor_block('anti', f't{order}{cc}', doms[k:], doms[:k])
            return np.transpose(arr, list(range(k, 2 * k)) + list(range(k)))
        mm = re.fullmatch(r'u([lr])(\d)', name)
        if mm:
            tname = 'X' if mm.group(1) == 'l' else 'Y'
            n_o = sum(1 for s in idx if space_of(s) == 'o')
            # u[lr]<n>: n-th block of the amplitude vector = n-th excitation
            # class of the ADC variant (ph -> 1, pphh -> 2; h -> 1, phh -> 2;
            # hh -> 1, phhh -> 2; ...)
            n_v = len(idx) - n_o
            cls = min(n_o, n_v) + (1 if n_o != n_v else 0)
            if int(mm.group(2)) != cls:
                raise InterpError(f'{name} addresses block {mm.group(2)} of the '
                                  f'amplitude vector, the operand with indices '
                                  f'{idx} is block {cls}')
            lo, up = doms[:n_o], doms[n_o:]
            arr = m.tensor_block('anti', tname, up, lo)
            k = len(up)
            return np.transpose(arr, list(range(k, n)) + list(range(k)))
        mm = re.fullmatch(r'p0_(\d+)_([ovg]{2})', name)
        if mm:
            self._check_block(mm.group(2), idx, name)
            return m.tensor_block('anti', f'p{mm.group(1)}', doms[:1], doms[1:])
        mm = re.fullmatch(r'(?:t2eri_|pi)(\w+)', name)
        if mm:
            return m.tensor_block('anti', f't2eri{mm.group(1)}', doms[:2],
                                  doms[2:])
        if name == 't2sq':
            return m.tensor_block('anti', 't2sq', doms[:2], doms[2:])
        mm = re.fullmatch(r'([A-Za-z]\w*?)_([ovg]+)', name)
        if mm:
            nm, b = mm.group(1), mm.group(2)
            self._check_block(b, idx, name)
            if nm == 'd' and self.has_delta:
                if 'd' in self.cat:
                    raise InterpError('AMBIGUOUS d_<block>: KroneckerDelta and '
                                      'tensor d share the emitted name')
                if n != 2:
                    raise InterpError(f'delta {name} with {n} indices')
                return (doms[0][:, None] == doms[1][None, :]).astype(np.int64)
            if nm not in self.cat:
                raise InterpError(f'unknown tensor name {nm!r} in {name}')
            kind, nu = self.cat[nm]
            if kind == 'non':
                return m.tensor_block('non', nm, doms, [])
            if kind == 'amp':
                n_o = sum(1 for s in idx if space_of(s) == 'o')
                arr = m.tensor_block('anti', nm, doms[n_o:], doms[:n_o])
                k = n - n_o
                return np.transpose(arr, list(range(k, n)) + list(range(k)))
            nu = nu.get(n) if isinstance(nu, dict) else nu
            if nu is None:
                raise InterpError(f'rank split of {name} unknown')
            return m.tensor_block(kind, nm, doms[:nu], doms[nu:])
        raise InterpError(f'can not bind name {name!r}')

    @staticmethod
    def _check_block(block, idx, name):
        got = ''.join(space_of(s) for s in idx)
        if got != block:
            raise InterpError(f'{name} is used with indices {idx} of block {got}')


class Interpreter:
    def __init__(self, binder, backend, field):
        self.b = binder
        self.backend = backend
        self.F = field
        self.p = field.p
        self.programs = 0

    # -- labelled tensors: (array, [index names]) -----------------------------
    def contract(self, ops, out):
        """ops: [(array, [labels])], out: [labels]"""
        p = self.p
        ops = [(np.asarray(a, dtype=np.int64) % p, list(i)) for a, i in ops]
        letters = {}

        def L(t):
            if t not in letters:
                letters[t] = chr(97 + len(letters))
            return letters[t]
        cur, curix = ops[0]
        for k in range(1, len(ops)):
            nxt, nix = ops[k]
            later = set(t for _, ix in ops[k + 1:] for t in ix) | set(out)
            res = [t for t in dict.fromkeys(curix + nix) if t in later]
            sp = (''.join(L(t) for t in curix) + ',' + ''.join(L(t) for t in nix)
                  + '->' + ''.join(L(t) for t in res))
            cur = np.einsum(sp, cur, nxt) % p
            curix = res
        if any(t not in curix for t in out):
            raise InterpError(f'output index {out} not on the operands {curix}')
        sp = ''.join(L(t) for t in curix) + '->' + ''.join(L(t) for t in out)
        return np.einsum(sp, cur) % p, list(out)

    # -- parser ---------------------------------------------------------------
    def parse_product(self, s, i, subscripts=None):
        """product of factors; returns (scalar, tensor | None, i). In einsum mode
        a tensor factor is (array, None) (positional); in libtensor mode it is
        labelled."""
        scal, tens = 1, []
        while True:
            i = self._ws(s, i)
            val, i = self.parse_factor(s, i, subscripts)
            if isinstance(val, int):
                scal = scal * val % self.p
            elif np.asarray(val[0]).ndim == 0:
                scal = scal * int(val[0]) % self.p
            else:
                tens.append(val)
            i = self._ws(s, i)
            if s.startswith('*', i):
                i += 1
                continue
            break
        return scal, tens, i

    @staticmethod
    def _ws(s, i):
        while i < len(s) and s[i] == ' ':
            i += 1
        return i

    def parse_factor(self, s, i, subscripts):
        if s.startswith('einsum(', i):
            i += 7
            if s[i] != '"':
                raise InterpError('einsum without spec')
            j = s.index('"', i + 1)
            spec = s[i + 1:j]
            i = j + 1
            ins, out = spec.split('->')
            ins = ins.split(',')
            ops = []
            scal = 1
            for sub in ins:
                i = self._ws(s, i)
                if s[i] != ',':
                    raise InterpError(f'expected operand for {sub!r}')
                i = self._ws(s, i + 1)
                c, tens, i = self.parse_product(s, i, tok(sub))
                scal = scal * c % self.p
                if len(tens) != 1:
                    raise InterpError(f'{len(tens)} tensors for subscript {sub}')
                arr, lab = tens[0]
                labels = tok(sub)
                if arr.ndim != len(labels):
                    raise InterpError(f'operand of rank {arr.ndim} used with '
                                      f'subscript {sub!r}')
                ops.append((arr, labels))
            i = self._ws(s, i)
            if s[i] != ')':
                raise InterpError(f'expected ) at {s[i:i + 20]!r}')
            i += 1
            # dimensions must agree per label
            arr, lab = self.contract_checked(ops, tok(out))
            return (arr * scal % self.p, lab), i
        for fn in ('contract(', 'dot_product('):
            if s.startswith(fn, i):
                i += len(fn)
                contracted = None
                if fn == 'contract(':
                    j = s.index(',', i)
                    contracted = [tok(x)[0] for x in s[i:j].split('|')]
                    i = j + 1
                ops = []
                scal = 1
                while True:
                    i = self._ws(s, i)
                    c, tens, i = self.parse_product(s, i)
                    scal = scal * c % self.p
                    if not tens:
                        raise InterpError('operand holds no tensor')
                    if len(tens) > 1:
                        # 'A(..) * B(..)' is the emitted form of an outer
                        # product (an inner contraction without summed index)
                        seen = set()
                        for _, lab in tens:
                            if seen & set(lab):
                                raise InterpError('product operand with a '
                                                  'label on two factors')
                            seen |= set(lab)
                        lab_all = [t for _, lab in tens for t in lab]
                        tens = [self.contract_checked(tens, lab_all)]
                    ops.append(tens[0])
                    i = self._ws(s, i)
                    if s[i] == ',':
                        i += 1
                        continue
                    if s[i] == ')':
                        i += 1
                        break
                    raise InterpError(f'unexpected {s[i:i + 10]!r}')
                alllab = []
                for _, lab in ops:
                    for t in lab:
                        if t not in alllab:
                            alllab.append(t)
                if contracted is None:
                    contracted = alllab   # dot product: everything is summed
                for t in contracted:
                    if t not in alllab:
                        raise InterpError(f'contracted index {t} on no operand')
                out = [t for t in alllab if t not in contracted]
                arr, lab = self.contract_checked(ops, out)
                return (arr * scal % self.p, lab), i
        m = re.match(r'[A-Za-z_][\w\.]*', s[i:])
        if m:
            name = m.group(0)
            i += len(name)
            if self.backend == 'libtensor' and s.startswith('(', i):
                j = s.index(')', i)
                idx = [tok(x)[0] for x in s[i + 1:j].split('|')] if j > i + 1 \
                    else []
                i = j + 1
                arr = self.b.tensor(name, idx)
                # repeated labels: diagonal
                if len(set(idx)) < len(idx):
                    arr, idx = self.contract([(arr, idx)],
                                             list(dict.fromkeys(idx)))
                return (arr, idx), i
            if subscripts is not None and re.fullmatch(
                    r'(hf\.\w+|[A-Za-z]\w*_\w+|t2sq|u[lr]\d)', name):
                return (self.b.tensor(name, subscripts), None), i
            # a symbol
            return self.b.scalar(name), i
        raise InterpError(f'can not parse {s[i:i + 30]!r}')

    def contract_checked(self, ops, out):
        size = {}
        for arr, lab in ops:
            for ax, t in enumerate(lab):
                if size.setdefault(t, arr.shape[ax]) != arr.shape[ax]:
                    raise InterpError(f'index {t} has two different ranges')
        return self.contract(ops, out)

    # -- numbers ----------------------------------------------------------------
    def number(self, part):
        part = part.strip()
        m = re.fullmatch(r'sqrt\((\d+)\)', part) or \
            re.fullmatch(r'constants::sq(\d+)', part)
        if m:
            return self.F.sqrt_int(int(m.group(1)))
        if ' / ' in part:
            a, b = part.split(' / ')
            return self._dec(a) * self.F.inv(self._dec(b)) % self.p
        return self._dec(part)

    def _dec(self, t):
        from fractions import Fraction
        fr = Fraction(t.strip())
        return fr.numerator % self.p * self.F.inv(fr.denominator) % self.p

    # -- programs ---------------------------------------------------------------
    def run(self, code, target):
        """target: list of index names in the requested order -> array"""
        shape = tuple(len(self.b.dom(t)) for t in target)
        total = np.zeros(shape, dtype=np.int64)
        p = self.p
        comment = '  #' if self.backend == 'einsum' else '  //'
        numtok = r'(\d+(\.\d+)?( / \d+(\.\d+)?)?|sqrt\(\d+\)|constants::sq\d+)'
        for blk in code.split('\n\n'):
            lines = blk.split('\n')
            if not lines[0].startswith('The scaling comment'):
                raise InterpError(f'unexpected block header {lines[0]!r}')
            m = re.fullmatch(r'Apply (.*) to:', lines[1])
            if not m:
                raise InterpError(f'unexpected line {lines[1]!r}')
            perm = m.group(1)
            sub = np.zeros(shape, dtype=np.int64)
            for ln in lines[2:]:
                self.programs += 1
                ln = ln.split(comment)[0].rstrip()
                if ln[:2] not in ('+ ', '- '):
                    raise InterpError(f'line without sign: {ln!r}')
                sign = -1 if ln[0] == '-' else 1
                parts = ln[2:].split(' * ')
                k, c = 0, sign % p
                while k < len(parts) and re.fullmatch(numtok, parts[k].strip()):
                    c = c * self.number(parts[k]) % p
                    k += 1
                rest = ' * '.join(parts[k:])
                if not rest.strip():
                    val = np.full(shape, c, dtype=np.int64)
                else:
                    scal, tens, i = self.parse_product(
                        rest, 0, target if self.backend == 'einsum' else None)
                    if i != len(rest):
                        raise InterpError(f'trailing text {rest[i:]!r}')
                    c = c * scal % p
                    if not tens:
                        val = np.full(shape, c, dtype=np.int64)
                    else:
                        if self.backend == 'einsum':
                            if len(tens) != 1:
                                raise InterpError('product of tensors outside '
                                                  'einsum')
                            arr, lab = tens[0]
                            if lab is not None and lab != list(target):
                                raise InterpError(f'result indices {lab} != '
                                                  f'requested {target}')
                        else:
                            arr, lab = self.contract_checked(tens, list(target)) \
                                if set(t for _, la in tens for t in la) == \
                                set(target) else (None, None)
                            if arr is None:
                                raise InterpError('result labels differ from '
                                                  'the target indices')
                        if arr.shape != shape:
                            raise InterpError(f'result shape {arr.shape} != '
                                              f'{shape}')
                        val = arr * c % p
                sub = (sub + val) % p
            res = sub.copy()
            if perm != '1':
                if not (perm.startswith('(1') and perm.endswith(')')):
                    raise InterpError(f'can not parse permutations {perm!r}')
                for sg, ops in re.findall(
                        r'([+-]) ((?:P_[a-z]\d*[a-z]\d*)+)', perm[1:-1]):
                    a2 = sub
                    for pq in re.findall(r'P_([a-z]\d*)([a-z]\d*)', ops):
                        if pq[0] not in target or pq[1] not in target:
                            raise InterpError(f'permutation of non-target {pq}')
                        a2 = np.swapaxes(a2, target.index(pq[0]),
                                         target.index(pq[1]))
                    res = (res + (1 if sg == '+' else -1) * a2) % p
            total = (total + res) % p
        return total
