"""Shared pieces of the monitors: case results, library-call discipline."""
import hashlib
import json
import os
import random


class CaseTimeout(BaseException):
    pass


class Refused(Exception):
    """the library refused with a documented error"""


class LibCrash(Exception):
    """an undocumented exception escaped a public API"""

    def __init__(self, msg, tags=()):
        super().__init__(msg)
        self.tags = list(tags)


class MonitorViolation(Exception):
    """a monitor attached to a library callable observed a broken post-condition
    while a case was being built or run (the worker reports it as a violation of
    the running property)"""


class CaseResult:
    def __init__(self, case):
        self.case_id = case['id']
        self.status = 'ok'
        self.detail = None
        self.tags = []
        self.counters = {}
        self.nontrivial = False
        self.fingerprint = None
        self.observed = None

    def count(self, name, n=1):
        self.counters[name] = self.counters.get(name, 0) + n

    def violation(self, detail, tags=()):
        """record (the first) violation of the case"""
        self.count('violations_recorded')
        if self.status != 'violation':
            self.status = 'violation'
            self.detail = detail
        for t in tags:
            if t not in self.tags:
                self.tags.append(t)

    def skip(self, why):
        self.status = 'skipped'
        self.detail = why

    def to_json(self):
        return dict(case_id=self.case_id, status=self.status,
                    detail=self.detail, tags=self.tags, counters=self.counters,
                    nontrivial=bool(self.nontrivial),
                    fingerprint=self.fingerprint, observed=self.observed)


DOCUMENTED_REFUSALS = ('Inputerror', 'NotImplementedError')


def lib_call(fn, *args, refusals=DOCUMENTED_REFUSALS, tags=(), **kwargs):
    """call into the library: documented refusals -> Refused, every other
    exception -> LibCrash (a violation of 'returns ... or refuses')."""
    try:
        return fn(*args, **kwargs)
    except CaseTimeout:
        raise
    except RecursionError as ex:
        raise LibCrash(f'RecursionError in {getattr(fn, "__name__", fn)}',
                       tags=list(tags) + ['exception:RecursionError']) from ex
    except Exception as ex:  # noqa: BLE001
        name = type(ex).__name__
        if name in refusals:
            raise Refused(f'{name}: {str(ex)[:200]}') from ex
        import traceback
        tb = traceback.format_exc()[-1500:]
        raise LibCrash(f'{name}: {str(ex)[:300]} in '
                       f'{getattr(fn, "__name__", fn)}\n{tb}',
                       tags=list(tags) + [f'exception:{name}']) from ex


def fp(*parts):
    return hashlib.sha256(json.dumps(parts, sort_keys=True, default=str)
                          .encode()).hexdigest()[:16]


def rng_for(seed, *salt):
    h = hashlib.sha256(json.dumps([seed, *salt], default=str).encode())
    return random.Random(int.from_bytes(h.digest()[:8], 'little'))


def env_seed():
    try:
        return int(os.environ.get('VERIF_SEED', '0'))
    except ValueError:
        return 0
