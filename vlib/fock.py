"""FS - Fock-space / determinant-space reference semantics over F_p.

Determinants are bit masks over the N spin orbitals (orbitals 0..n_o-1 occupied in
the reference).  Everything here is defined from a+_p / a_p acting on bit masks; no
adcgen code is used.
"""
import itertools
from fractions import Fraction

import numpy as np


def popcount(x):
    return bin(x).count('1')


def apply_op(det, sign, kind, orb):
    """kind 'c' (create) / 'a' (annihilate) on orbital orb -> (det, sign) | None"""
    bit = 1 << orb
    if kind == 'c':
        if det & bit:
            return None
    elif not det & bit:
        return None
    if popcount(det & (bit - 1)) % 2:
        sign = -sign
    return det ^ bit, sign


def perm_parity(t):
    """sign of the permutation sorting the tuple t (distinct entries)"""
    inv = sum(1 for a in range(len(t)) for b in range(a + 1, len(t))
              if t[a] > t[b])
    return -1 if inv % 2 else 1


class Fock:
    def __init__(self, n_o, n_v, p):
        self.n_o, self.n_v, self.N, self.p = n_o, n_v, n_o + n_v, p
        self.ref = (1 << n_o) - 1
        self.occ = list(range(n_o))
        self.virt = list(range(n_o, self.N))
        self._cols = {}

    def inv(self, a):
        a = int(a) % self.p
        if a == 0:
            raise ZeroDivisionError("0 mod p")
        return pow(a, self.p - 2, self.p)

    def frac(self, fr):
        fr = Fraction(fr)
        return fr.numerator % self.p * self.inv(fr.denominator) % self.p

    # -- operator strings -----------------------------------------------------
    def vev(self, ops):
        """<Phi0| ops |Phi0>, ops = [(kind, orb)] written left to right"""
        det, sign = self.ref, 1
        for kind, orb in reversed(ops):
            r = apply_op(det, sign, kind, orb)
            if r is None:
                return 0
            det, sign = r
        return sign if det == self.ref else 0

    def normal_order(self, ops):
        """normal ordering wrt the Fermi vacuum by its definition: stable partition
        into quasi-creators (a+_virt, a_occ) left / quasi-annihilators right, sign =
        parity of that permutation, no contraction terms."""
        n_o = self.n_o

        def is_qann(k, o):
            return (k == 'a' and o >= n_o) or (k == 'c' and o < n_o)
        qc = [i for i, op in enumerate(ops) if not is_qann(*op)]
        qa = [i for i, op in enumerate(ops) if is_qann(*op)]
        perm = qc + qa
        return perm_parity(perm), [ops[i] for i in perm]

    def apply_ops(self, ops, vec):
        p = self.p
        out = vec
        for kind, orb in reversed(ops):
            new = {}
            for det, val in out.items():
                r = apply_op(det, 1, kind, orb)
                if r is None:
                    continue
                new[r[0]] = (new.get(r[0], 0) + r[1] * val) % p
            out = new
        return {d: v for d, v in out.items() if v}

    # -- vectors -------------------------------------------------------------
    def vadd(self, a, b, fb=1):
        p = self.p
        out = dict(a)
        for d, v in b.items():
            out[d] = (out.get(d, 0) + fb * v) % p
        return out

    def vscale(self, a, f):
        return {d: v * f % self.p for d, v in a.items()}

    def vdot(self, a, b):
        if len(a) > len(b):
            a, b = b, a
        return sum(v * b.get(d, 0) for d, v in a.items()) % self.p

    # -- one- and two-particle operators --------------------------------------
    def _column(self, det, one, two, key):
        ck = (det, key)
        col = self._cols.get(ck)
        if col is not None:
            return col
        N, p = self.N, self.p
        col = {}
        if one is not None:
            for q in range(N):
                x1 = apply_op(det, 1, 'a', q)
                if x1 is None:
                    continue
                for r in range(N):
                    x2 = apply_op(x1[0], x1[1], 'c', r)
                    if x2 is None:
                        continue
                    c = int(one[r, q])
                    if c:
                        col[x2[0]] = (col.get(x2[0], 0) + x2[1] * c) % p
        if two is not None:
            inv4 = self.inv(4)
            for r_ in range(N):
                x1 = apply_op(det, 1, 'a', r_)
                if x1 is None:
                    continue
                for s_ in range(N):
                    x2 = apply_op(x1[0], x1[1], 'a', s_)
                    if x2 is None:
                        continue
                    for q in range(N):
                        x3 = apply_op(x2[0], x2[1], 'c', q)
                        if x3 is None:
                            continue
                        for q2 in range(N):
                            x4 = apply_op(x3[0], x3[1], 'c', q2)
                            if x4 is None:
                                continue
                            c = int(two[q2, q, r_, s_])
                            if c:
                                col[x4[0]] = (col.get(x4[0], 0)
                                              + x4[1] * c * inv4) % p
        self._cols[ck] = col
        return col

    def apply_H(self, vec, one, two, key):
        """(sum one[p,q] p+ q + 1/4 sum two[p,q,r,s] p+ q+ s r)|vec>; `key`
        identifies the (one, two) pair for the column cache."""
        p = self.p
        out = {}
        for det, val in vec.items():
            for d, c in self._column(det, one, two, key).items():
                out[d] = (out.get(d, 0) + c * val) % p
        return {d: v for d, v in out.items() if v}

    def apply_general(self, vec, coeff, n_create, n_annihilate, pref):
        """pref * sum coeff[p.., q..] p+.. (q.. reversed) |vec> for an operator with
        n_create creators and n_annihilate annihilators, coefficient tensor over all
        N orbitals (creator indices first)."""
        p, N = self.p, self.N
        out = {}
        for cs in itertools.permutations(range(N), n_create):
            for as_ in itertools.permutations(range(N), n_annihilate):
                c = int(coeff[cs + as_]) * pref % p
                if not c:
                    continue
                w = self.apply_ops([('c', x) for x in cs]
                                   + [('a', x) for x in reversed(as_)], vec)
                for d, x in w.items():
                    out[d] = (out.get(d, 0) + c * x) % p
        return {d: v for d, v in out.items() if v}

    def exc_level(self, det):
        return popcount(det >> self.n_o)


class Hamiltonian:
    """H = sum h_pq p+q + 1/4 sum <pq||rs> p+q+sr with h = f - sum_i <pi||qi>"""

    def __init__(self, fock_space, fock_matrix, V, variant='mp'):
        fs = self.fs = fock_space
        p = fs.p
        n_o = fs.n_o
        self.f = np.asarray(fock_matrix, dtype=np.int64) % p
        self.V = np.asarray(V, dtype=np.int64) % p
        self.h = (self.f - np.einsum('piqi->pq',
                                     self.V[:, :n_o, :, :n_o])) % p
        self.variant = variant
        if variant == 'mp':
            assert not np.any(self.f - np.diag(np.diag(self.f))), \
                "MP reference needs a diagonal Fock matrix"
            self.h0 = np.diag(np.diag(self.f)) % p
            self.h1 = (self.h - self.h0) % p
        self._id = id(self)

    def H(self, vec):
        return self.fs.apply_H(vec, self.h, self.V, (self._id, 'H'))

    def H0(self, vec):
        if self.variant == 'mp':
            return self.fs.apply_H(vec, self.h0, None, (self._id, 'H0'))
        # RE: excitation-class conserving part of H
        fs = self.fs
        out = {}
        for det, val in vec.items():
            lvl = fs.exc_level(det)
            for d, c in fs._column(det, self.h, self.V,
                                   (self._id, 'H')).items():
                if fs.exc_level(d) == lvl:
                    out[d] = (out.get(d, 0) + c * val) % fs.p
        return {d: v for d, v in out.items() if v}

    def H1(self, vec):
        return self.fs.vadd(self.H(vec), self.H0(vec), fs_neg(self.fs))


def fs_neg(fs):
    return fs.p - 1


def solve_mod(A, b, p):
    """solve A x = b over F_p (lists of python ints), Gaussian elimination"""
    n = len(b)
    M = [[int(A[i][j]) % p for j in range(n)] + [int(b[i]) % p]
         for i in range(n)]
    for c in range(n):
        piv = next((r for r in range(c, n) if M[r][c]), None)
        if piv is None:
            raise ZeroDivisionError("singular matrix mod p")
        M[c], M[piv] = M[piv], M[c]
        inv = pow(M[c][c], p - 2, p)
        M[c] = [x * inv % p for x in M[c]]
        for r in range(n):
            if r != c and M[r][c]:
                f = M[r][c]
                M[r] = [(x - f * y) % p for x, y in zip(M[r], M[c])]
    return [M[i][n] for i in range(n)]


class RSPT:
    """Rayleigh-Schroedinger PT with intermediate normalisation:
    (H0 - E0)|n> = -H1|n-1> + sum_{m>=1} E(m)|n-m>, E(n) = <Phi0|H1|n-1>."""

    def __init__(self, ham, order, nelec=None, first_order_singles=None):
        """first_order_singles: optional array s[a, i] over all N orbitals; the
        singly excited determinants get these coefficients in |1> (MP: they vanish
        for a HF reference; the library's first_order_singles=True keeps them as
        free first-order parameters that enter all higher orders through the
        recursion)."""
        self.ham, self.order = ham, order
        fs = self.fs = ham.fs
        p = fs.p
        ref = fs.ref
        self.dets = [sum(1 << o for o in c) for c in
                     itertools.combinations(range(fs.N), fs.n_o)]
        e0v = ham.H0({ref: 1})
        assert set(e0v) <= {ref}, "reference is not an eigenvector of H0"
        self.E = [e0v.get(ref, 0)]
        self.psi = [{ref: 1}]
        comp = [d for d in self.dets if d != ref]
        if ham.variant == 'mp':
            e = np.diag(ham.f)
            ediff = {d: (sum(int(e[o]) for o in range(fs.N) if d >> o & 1)
                         - self.E[0]) % p for d in comp}
        else:
            # (H0 - E0) on the complement, block diagonal in excitation level
            blocks = {}
            for d in comp:
                blocks.setdefault(fs.exc_level(d), []).append(d)
            mats = {}
            for lvl, ds in blocks.items():
                pos = {d: k for k, d in enumerate(ds)}
                A = [[0] * len(ds) for _ in ds]
                for d in ds:
                    col = ham.H0({d: 1})
                    for d2, c in col.items():
                        A[pos[d2]][pos[d]] = c
                    A[pos[d]][pos[d]] = (A[pos[d]][pos[d]] - self.E[0]) % p
                mats[lvl] = (ds, A)
        for k in range(1, order + 1):
            hp = ham.H1(self.psi[k - 1])
            self.E.append(hp.get(ref, 0))
            rhs = fs.vscale(hp, p - 1)
            for m in range(1, k + 1):
                rhs = fs.vadd(rhs, self.psi[k - m], self.E[m])
            new = {}
            if ham.variant == 'mp':
                for d, v in rhs.items():
                    if d == ref or not v:
                        continue
                    new[d] = v * fs.inv(ediff[d]) % p
            else:
                for lvl, (ds, A) in mats.items():
                    b = [rhs.get(d, 0) for d in ds]
                    if not any(b):
                        continue
                    x = solve_mod(A, b, p)
                    for d, xi in zip(ds, x):
                        if xi:
                            new[d] = xi
            if k == 1 and first_order_singles is not None:
                for a in fs.virt:
                    for i in fs.occ:
                        st = fs.apply_ops([('c', a), ('a', i)], {ref: 1})
                        (det, sg), = st.items()
                        c = int(first_order_singles[a, i]) * sg % p
                        if c:
                            new[det] = (new.get(det, 0) + c) % p
            self.psi.append(new)

    def amplitude(self, n, k):
        """dense antisymmetric array over all N orbitals, axes (virt x k, occ x k),
        of the order-n k-fold excitation coefficients in the library's documented
        convention: |n> = sum_{restricted} t^{ab..}_{ij..} a+_a a+_b .. a_j a_i |0>
        with an additional minus sign for doubles."""
        fs = self.fs
        p = fs.p
        arr = np.zeros((fs.N,) * (2 * k), dtype=np.int64)
        for vs in itertools.combinations(fs.virt, k):
            for os_ in itertools.combinations(fs.occ, k):
                st = fs.apply_ops([('c', a) for a in vs]
                                  + [('a', i) for i in reversed(os_)],
                                  {fs.ref: 1})
                (det, sg), = st.items()
                c = self.psi[n].get(det, 0) * sg % p
                if k == 2:
                    c = (-c) % p
                if not c:
                    continue
                for pv in itertools.permutations(range(k)):
                    sv = perm_parity(pv)
                    for po in itertools.permutations(range(k)):
                        so = perm_parity(po)
                        arr[tuple(vs[x] for x in pv)
                            + tuple(os_[x] for x in po)] = sv * so * c % p
        return arr


# -- formal power series in lambda (truncated) -----------------------------------
class Series:
    """helpers for truncated power series of scalars (lists) and vectors (lists
    of dicts)"""

    def __init__(self, fs, nmax):
        self.fs, self.nmax, self.p = fs, nmax, fs.p

    def vzero(self):
        return [dict() for _ in range(self.nmax + 1)]

    def vec_times_scalar(self, vs, cs):
        out = self.vzero()
        for a in range(self.nmax + 1):
            if not vs[a]:
                continue
            for b in range(self.nmax + 1 - a):
                if cs[b]:
                    out[a + b] = self.fs.vadd(out[a + b], vs[a], cs[b])
        return out

    def vadd(self, a, b, f=1):
        return [self.fs.vadd(x, y, f) for x, y in zip(a, b)]

    def dot(self, a, b):
        out = [0] * (self.nmax + 1)
        for i in range(self.nmax + 1):
            if not a[i]:
                continue
            for j in range(self.nmax + 1 - i):
                if b[j]:
                    out[i + j] = (out[i + j] + self.fs.vdot(a[i], b[j])) % self.p
        return out

    def smul(self, a, b):
        out = [0] * (self.nmax + 1)
        for i in range(self.nmax + 1):
            if not a[i]:
                continue
            for j in range(self.nmax + 1 - i):
                out[i + j] = (out[i + j] + a[i] * b[j]) % self.p
        return out

    def spow(self, x, alpha):
        """(1 + x)^alpha for a scalar series x with x[0] = 0"""
        assert x[0] == 0
        alpha = Fraction(alpha)
        out = [0] * (self.nmax + 1)
        out[0] = 1
        term = list(out)
        coef = Fraction(1)
        for k in range(1, self.nmax + 1):
            term = self.smul(term, x)
            coef = coef * (alpha - (k - 1)) / k
            c = self.fs.frac(coef)
            out = [(o + c * t) % self.p for o, t in zip(out, term)]
        return out

    def sinv(self, s):
        """1/s for a scalar series with s[0] = 1"""
        assert s[0] == 1
        out = [1] + [0] * self.nmax
        for n in range(1, self.nmax + 1):
            out[n] = (-sum(s[k] * out[n - k] for k in range(1, n + 1))) % self.p
        return out

    def apply_ops(self, ops, vs):
        return [self.fs.apply_ops(ops, v) for v in vs]
