"""TM - tensor-model evaluator over a prime field F_p.

Gives a number to any adcgen expression: every tensor symbol is a keyed hash of
its *canonicalised orbital tuple* (so exactly the tuples related by the model's
declared symmetry share a value), every index ranges over the occupied / virtual /
all spin orbitals of a small model space, contracted indices are summed.

The evaluator only reads public attributes of adcgen's sympy objects (name,
upper, lower, idx, args, space, spin); it shares no code with adcgen.
"""
import hashlib
import itertools

import numpy as np
from sympy import Add, Mul, Pow, Symbol, S, sympify, nsimplify, factorint

# primes < 2^24 for which 2, 3, 5, 7, 11, 13 are quadratic residues, with one fixed
# square root each (computed once with sympy, asserted at import)
PRIMES = (16777199, 16774081, 16772809)
_ROOTS = {
    16777199: {2: 6803275, 3: 6396467, 5: 7910178, 7: 4664991, 11: 4197009,
               13: 2821988},
    16774081: {2: 1284758, 3: 8315017, 5: 5562854, 7: 8299654, 11: 1226998,
               13: 1642317},
    16772809: {2: 730865, 3: 5122593, 5: 1440526, 7: 7401199, 11: 5633190,
               13: 6783706},
}
for _p, _r in _ROOTS.items():
    for _q, _s in _r.items():
        assert _s * _s % _p == _q


class ModelUnusable(Exception):
    """A denominator vanished mod p: the *model* is unusable, never a verdict."""


class Field:
    def __init__(self, p=PRIMES[0]):
        self.p = p
        self.roots = _ROOTS[p]

    def inv(self, a):
        a = int(a) % self.p
        if a == 0:
            raise ModelUnusable("division by zero mod p")
        return pow(a, self.p - 2, self.p)

    def sqrt_int(self, n):
        """fixed square root of a positive integer n (multiplicative)"""
        r = 1
        for q, m in factorint(int(n)).items():
            if m % 2:
                if q not in self.roots:
                    raise ModelUnusable(f"no root of {q}")
                r = r * self.roots[q] % self.p
            r = r * pow(q, m // 2, self.p) % self.p
        return r

    def num(self, x):
        """sympy number (Integer, Rational, sqrt products, Float) -> F_p"""
        p = self.p
        x = sympify(x)
        if x.is_Integer:
            return int(x) % p
        if x.is_Rational:
            return (int(x.p) % p) * self.inv(int(x.q)) % p
        if x.is_Float:
            return self.num(nsimplify(x, rational=True))
        if isinstance(x, Pow):
            b, ex = x.args
            if ex.is_Rational and ex.q == 2 and b.is_Rational and b > 0:
                r = self.sqrt_int(b.p) * self.inv(self.sqrt_int(b.q)) % p
                r = pow(r, abs(int(ex.p)), p)
                return self.inv(r) if ex.p < 0 else r
            if ex.is_Integer:
                v = self.num(b)
                return pow(v, int(ex), p) if ex > 0 else \
                    self.inv(pow(v, -int(ex), p))
        if isinstance(x, Mul):
            r = 1
            for a in x.args:
                r = r * self.num(a) % p
            return r
        if isinstance(x, Add):
            return sum(self.num(a) for a in x.args) % p
        if x.is_infinite or x is S.NaN:
            raise ModelUnusable(f"{x!r} in the input (division by zero)")
        raise TypeError(f"can not map number {x!r} ({type(x)}) to F_p")

    def pow_arr(self, a, k):
        """elementwise a**k mod p (k python int, may be negative)"""
        p = self.p
        a = np.asarray(a, dtype=np.int64) % p
        if k < 0:
            if np.any(a == 0):
                raise ModelUnusable("zero in denominator")
            a = self.pow_arr(a, p - 2)
            k = -k
        res = np.ones_like(a)
        base = a
        while k:
            if k & 1:
                res = res * base % p
            base = base * base % p
            k >>= 1
        return res


_MIX = (np.uint64(0x9E3779B97F4A7C15), np.uint64(0xBF58476D1CE4E5B9),
        np.uint64(0x94D049BB133111EB))


def _splitmix(x):
    with np.errstate(over='ignore'):
        x = x + _MIX[0]
        z = x
        z = (z ^ (z >> np.uint64(30))) * _MIX[1]
        z = (z ^ (z >> np.uint64(27))) * _MIX[2]
        return z ^ (z >> np.uint64(31))


def name_hash(s, seed):
    h = hashlib.sha256((s + '|' + str(seed)).encode()).digest()
    return int.from_bytes(h[:8], 'little')


DEFAULT_NAMES = dict(orb_energy='e', fock='f', eri='V', coulomb='v',
                     sym_orb_denom='D', operator='d')


class Model:
    """n_o occupied + n_v virtual spin orbitals.

    sym:      name -> bra-ket symmetry (+1/-1) the *model* gives that name
    alias:    name -> name whose values it shares (t1cc -> t1 in a real model)
    explicit: name or (name, n_upper, n_lower) -> ndarray over all N orbitals
              (upper..., lower...) or callable(model, upper_doms, lower_doms)
    zero:     names that evaluate to 0
    spin:     spin orbital k of a space = (spatial k // 2, spin k % 2)
    """

    def __init__(self, n_o, n_v, seed=0, p=PRIMES[0], spin=False, sym=None,
                 alias=None, explicit=None, zero=(), names=None):
        self.n_o, self.n_v, self.N = n_o, n_v, n_o + n_v
        self.seed = seed
        self.F = Field(p)
        self.p = p
        self.sym = dict(sym or {})
        self.alias = dict(alias or {})
        self.explicit = dict(explicit or {})
        self.zero = set(zero)
        self.spin = spin
        self.names = dict(DEFAULT_NAMES)
        if names:
            self.names.update(names)
        rng = np.random.default_rng([seed, 77])
        self.e = rng.integers(1, p, size=self.N).astype(np.int64)
        if spin:
            assert n_o % 2 == 0 and n_v % 2 == 0
            self.spin_of = np.array([k % 2 for k in range(n_o)]
                                    + [k % 2 for k in range(n_v)])
            self.spatial_of = np.array([k // 2 for k in range(n_o)]
                                       + [n_o // 2 + k // 2 for k in range(n_v)])
        self._cache = {}

    def derive(self, **kw):
        """same model under another prime / seed (for re-evaluation)"""
        args = dict(n_o=self.n_o, n_v=self.n_v, seed=self.seed, p=self.p,
                    spin=self.spin, sym=self.sym, alias=self.alias,
                    explicit=self.explicit, zero=self.zero, names=self.names)
        args.update(kw)
        return type(self)(**args)

    # -- index domains ------------------------------------------------------
    def space_domain(self, space, spin=''):
        if space in ('occ', 'o'):
            dom = np.arange(0, self.n_o)
        elif space in ('virt', 'v'):
            dom = np.arange(self.n_o, self.N)
        else:
            dom = np.arange(0, self.N)
        if spin:
            if not self.spin:
                raise ModelUnusable("spin labelled index in a spin-free model")
            dom = dom[self.spin_of[dom] == (0 if spin == 'a' else 1)]
        return dom

    def domain(self, idx):
        return self.space_domain(idx.space, idx.spin)

    # -- hashed values --------------------------------------------------------
    def _rand(self, tag, cols):
        h = np.full(cols.shape[:-1], name_hash(tag, self.seed), dtype=np.uint64)
        for c in range(cols.shape[-1]):
            h = _splitmix(h ^ (cols[..., c].astype(np.uint64)
                               + np.uint64(1 + 31 * c)))
        return (h % np.uint64(self.p)).astype(np.int64)

    def scalar(self, name):
        return name_hash('sym:' + name, self.seed) % self.p

    def tensor_block(self, kind, name, upper_doms, lower_doms):
        """dense array over the given orbital domains (upper..., lower...);
        kind: 'anti' | 'sym' | 'non'"""
        name = self.alias.get(name, name)
        nu, nl = len(upper_doms), len(lower_doms)
        doms = [np.asarray(d) for d in list(upper_doms) + list(lower_doms)]
        shape = tuple(len(d) for d in doms)
        if name in self.zero:
            return np.zeros(shape, dtype=np.int64)
        ex = self.explicit.get((name, nu, nl), None)
        if ex is None:
            ex = self.explicit.get(name, None)
        if ex is not None:
            if callable(ex):
                return np.asarray(ex(self, doms[:nu], doms[nu:]),
                                  dtype=np.int64) % self.p
            if ex.ndim != nu + nl:
                raise ModelUnusable(f"explicit tensor {name} has rank {ex.ndim}"
                                    f", requested {nu}+{nl}")
            return (ex[np.ix_(*doms)] if doms else ex) % self.p
        if not doms:
            return np.array(self._rand('T0:' + name,
                                       np.zeros((1,), dtype=np.int64)))
        grids = np.meshgrid(*doms, indexing='ij')
        if kind == 'non':
            return self._rand('N:' + name + f'|{nu}', np.stack(grids, axis=-1))
        up = (np.stack(grids[:nu], axis=-1) if nu
              else np.zeros(shape + (0,), dtype=np.int64))
        lo = (np.stack(grids[nu:], axis=-1) if nl
              else np.zeros(shape + (0,), dtype=np.int64))
        sign = np.ones(shape, dtype=np.int64)
        zero = np.zeros(shape, dtype=bool)

        def sort_group(g):
            nonlocal sign, zero
            k = g.shape[-1]
            if k < 2:
                return g
            order = np.argsort(g, axis=-1, kind='stable')
            sg = np.take_along_axis(g, order, axis=-1)
            if kind == 'anti':
                par = np.zeros(shape, dtype=np.int64)
                for a in range(k):
                    for b in range(a + 1, k):
                        par += (order[..., a] > order[..., b])
                sign = sign * (1 - 2 * (par % 2))
                for a in range(k - 1):
                    zero |= (sg[..., a] == sg[..., a + 1])
            return sg
        up, lo = sort_group(up), sort_group(lo)
        bk = self.sym.get(name, 0)
        if bk != 0 and nu == nl:
            swap = np.zeros(shape, dtype=bool)
            decided = np.zeros(shape, dtype=bool)
            for c in range(nu):
                lt = (lo[..., c] < up[..., c]) & ~decided
                gt = (lo[..., c] > up[..., c]) & ~decided
                swap |= lt
                decided |= lt | gt
            up, lo = (np.where(swap[..., None], lo, up),
                      np.where(swap[..., None], up, lo))
            if bk == -1:
                sign = np.where(swap, -sign, sign)
                zero |= ~decided
        cols = np.concatenate([up, lo + 1000], axis=-1)
        val = self._rand(('A:' if kind == 'anti' else 'S:') + name
                         + f'|{nu}|{nl}', cols)
        val = np.where(zero, 0, val)
        return (val * sign) % self.p

    def full(self, kind, name, nu, nl):
        """array over all N orbitals in every slot"""
        allo = np.arange(self.N)
        return self.tensor_block(kind, name, [allo] * nu, [allo] * nl)


def _is_index(s):
    return hasattr(s, 'space') and hasattr(s, 'spin') and isinstance(s, Symbol)


def idx_key(s):
    """harness's own total order on Index objects (deterministic)"""
    n = s.name
    return (s.space, s.spin, int(n[1:]) if n[1:].isdigit() else 0, n[0],
            s.dummy_index)


def obj_indices(f):
    """indices of an atomic factor (tensor, delta, operator) in slot order
    (upper then lower); () for anything else"""
    if hasattr(f, 'upper') and hasattr(f, 'lower'):
        return tuple(f.upper) + tuple(f.lower)
    if hasattr(f, 'indices') and hasattr(f, 'symbol'):
        return tuple(f.indices)
    if f.__class__.__name__ == 'KroneckerDelta':
        return tuple(f.args)
    if f.__class__.__name__ in ('AnnihilateFermion', 'CreateFermion'):
        return tuple(f.args)
    return ()


def count_indices(term):
    """{index: number of occurrences in the term, counted with |exponent|
    multiplicity and once per occurrence inside a power of a sum} - the
    documented Einstein rule, re-implemented."""
    cnt = {}

    def visit(f, mult):
        if f.is_number:
            return
        if isinstance(f, Pow):
            b, ex = f.args
            if ex.is_Integer:
                visit(b, mult * abs(int(ex)))
            else:
                visit(b, mult)
            return
        if isinstance(f, (Add, Mul)):
            for g in f.args:
                visit(g, mult)
            return
        if f.__class__.__name__ == 'NO':
            visit(f.args[0], mult)
            return
        idx = obj_indices(f)
        for s in idx:
            cnt[s] = cnt.get(s, 0) + mult
        if not idx and not isinstance(f, Symbol):
            raise TypeError(f"unknown factor {f!r} ({type(f)})")
    visit(term, 1)
    return cnt


def einstein_targets(term):
    cnt = count_indices(term)
    return sorted([s for s, n in cnt.items() if n == 1], key=idx_key)


def terms_of(expr):
    expr = sympify(expr)
    return expr.args if isinstance(expr, Add) else (expr,)


def to_sympy(expr):
    if type(expr).__module__.endswith('expr_container'):
        return expr.sympy
    return sympify(expr)


class Evaluator:
    def __init__(self, model):
        self.m = model
        self.p = model.p
        self.F = model.F
        self.n_einsum = 0

    # -- factors ----------------------------------------------------------------
    def factor(self, f):
        """-> (array, [indices]) all indices free (repeated ones diagonalised)"""
        m, p = self.m, self.p
        if f.is_number:
            return np.array(self.F.num(f), dtype=np.int64), []
        if isinstance(f, Pow):
            b, ex = f.args
            if not ex.is_Integer:
                raise TypeError(f"non-integer exponent on non-number: {f}")
            arr, idx = self.factor(b)
            return self.F.pow_arr(arr, int(ex)), idx
        if isinstance(f, Add):
            parts = [self.term_arr(t, None) for t in f.args]
            allidx = []
            for _, idx in parts:
                for s in idx:
                    if s not in allidx:
                        allidx.append(s)
            tot = np.zeros(tuple(len(m.domain(s)) for s in allidx),
                           dtype=np.int64)
            for arr, idx in parts:
                tot = (tot + self.expand_to(arr, idx, allidx)) % p
            return tot, allidx
        if isinstance(f, Mul):
            return self.term_arr(f, None)
        cname = f.__class__.__name__
        if cname == 'KroneckerDelta':
            i, j = f.args
            di, dj = m.domain(i), m.domain(j)
            return self.dedupe((di[:, None] == dj[None, :]).astype(np.int64),
                               [i, j])
        if hasattr(f, 'indices') and hasattr(f, 'symbol'):  # NonSymmetric
            idx = list(f.indices)
            if f.name == m.names['orb_energy'] and len(idx) == 1 and \
                    (f.name, 1, 0) not in m.explicit:
                return m.e[m.domain(idx[0])] % p, idx
            arr = m.tensor_block('non', f.name, [m.domain(s) for s in idx], [])
            return self.dedupe(arr, idx)
        if hasattr(f, 'upper') and hasattr(f, 'lower'):
            kind = 'sym' if cname == 'SymmetricTensor' else 'anti'
            up, lo = list(f.upper), list(f.lower)
            arr = m.tensor_block(kind, f.name, [m.domain(s) for s in up],
                                 [m.domain(s) for s in lo])
            return self.dedupe(arr, up + lo)
        if isinstance(f, Symbol) and not _is_index(f):
            return np.array(m.scalar(f.name), dtype=np.int64), []
        raise TypeError(f"can not evaluate factor {f!r} ({type(f)})")

    def dedupe(self, arr, idx):
        out = []
        for s in idx:
            if s not in out:
                out.append(s)
        if len(out) == len(idx):
            return arr, list(idx)
        let = {s: chr(97 + k) for k, s in enumerate(out)}
        spec = ''.join(let[s] for s in idx) + '->' + ''.join(let[s] for s in out)
        return np.einsum(spec, arr), out

    def expand_to(self, arr, idx, allidx):
        """broadcast arr (axes idx) to the axes allidx"""
        arr = np.asarray(arr)
        pos = {s: k for k, s in enumerate(allidx)}
        if idx:
            perm = sorted(range(len(idx)), key=lambda k: pos[idx[k]])
            arr = np.transpose(arr, perm)
        shape = [1] * len(allidx)
        for s in idx:
            shape[pos[s]] = len(self.m.domain(s))
        full = tuple(len(self.m.domain(s)) for s in allidx)
        return np.broadcast_to(arr.reshape(shape), full)

    # -- products ---------------------------------------------------------------
    def term_arr(self, t, keep):
        facs = t.args if isinstance(t, Mul) else (t,)
        return self.contract([self.factor(f) for f in facs], keep)

    def _einsum(self, spec, ax, ay, K):
        p = self.p
        self.n_einsum += 1
        if K * p * p < 2 ** 63:
            return np.einsum(spec, ax, ay) % p
        # chunk over the first contracted letter
        ins, out = spec.split('->')
        lx, ly = ins.split(',')
        c = next(ch for ch in lx + ly if ch not in out)
        n = ax.shape[lx.index(c)] if c in lx else ay.shape[ly.index(c)]
        tot = None
        for k in range(n):
            sx = np.take(ax, k, axis=lx.index(c)) if c in lx else ax
            sy = np.take(ay, k, axis=ly.index(c)) if c in ly else ay
            sub = lx.replace(c, '') + ',' + ly.replace(c, '') + '->' + out
            r = self._einsum(sub, sx, sy, -(-K // n))
            tot = r if tot is None else (tot + r) % p
        return tot

    def contract(self, parts, keep):
        """product of (array, idx) parts; sum every index not in keep
        (keep None: nothing is summed)."""
        m, p = self.m, self.p
        allidx = []
        for _, idx in parts:
            for s in idx:
                if s not in allidx:
                    allidx.append(s)
        keep_l = allidx if keep is None else [s for s in keep if s in allidx]
        keep_s = set(keep_l)
        parts = [(np.asarray(a, dtype=np.int64) % p, list(i)) for a, i in parts]
        # sum indices that occur on one part only and are not kept, right away
        for n, (a, ix) in enumerate(parts):
            others = set()
            for k, (_, iy) in enumerate(parts):
                if k != n:
                    others.update(iy)
            drop = [s for s in ix if s not in keep_s and s not in others]
            if drop:
                ax = tuple(ix.index(s) for s in drop)
                a = self._sum_axes(a, ax)
                parts[n] = (a, [s for s in ix if s not in drop])
        while len(parts) > 1:
            best = None
            for x in range(len(parts)):
                for y in range(x + 1, len(parts)):
                    ix, iy = parts[x][1], parts[y][1]
                    others = set()
                    for z in range(len(parts)):
                        if z not in (x, y):
                            others.update(parts[z][1])
                    res = [s for s in dict.fromkeys(ix + iy)
                           if s in others or s in keep_s]
                    size = 1
                    for s in res:
                        size *= len(m.domain(s))
                    key = (size, -len(set(ix) & set(iy)))
                    if best is None or key < best[0]:
                        best = (key, x, y, res)
            _, x, y, res = best
            (ax, ix), (ay, iy) = parts[x], parts[y]
            union = list(dict.fromkeys(ix + iy))
            let = {s: chr(97 + k) for k, s in enumerate(union)}
            spec = (''.join(let[s] for s in ix) + ','
                    + ''.join(let[s] for s in iy) + '->'
                    + ''.join(let[s] for s in res))
            K = 1
            for s in union:
                if s not in res:
                    K *= len(m.domain(s))
            r = self._einsum(spec, ax, ay, K)
            parts = [q for k, q in enumerate(parts) if k not in (x, y)] \
                + [(r, res)]
        arr, idx = parts[0]
        drop = [s for s in idx if s not in keep_s]
        if drop:
            arr = self._sum_axes(arr, tuple(idx.index(s) for s in drop))
            idx = [s for s in idx if s in keep_s]
        return arr % p, idx

    def _sum_axes(self, a, axes):
        # entries < p < 2^24, at most 2^39 summands before overflow: safe
        return np.sum(a, axis=axes, dtype=np.int64) % self.p

    # -- expressions --------------------------------------------------------------
    def value(self, expr, target):
        """Sum of all terms with every index not in `target` summed; array over
        the domains of `target` (in that order)."""
        expr = to_sympy(expr).expand()
        target = list(target)
        tot = np.zeros(tuple(len(self.m.domain(s)) for s in target),
                       dtype=np.int64)
        for t in terms_of(expr):
            arr, idx = self.term_arr(t, keep=target)
            tot = (tot + self.expand_to(arr, idx, target)) % self.p
        return tot

    def value_outer(self, expr, target):
        """like value(), but the terms are not expanded: a contracted index is
        summed once over the whole term, brackets (sums) are factors of the term
        (the reading of adcgen's Term: a Polynom is one object of the term)."""
        target = list(target)
        tot = np.zeros(tuple(len(self.m.domain(s)) for s in target),
                       dtype=np.int64)
        for t in terms_of(to_sympy(expr)):
            arr, idx = self.term_arr(t, keep=target)
            tot = (tot + self.expand_to(arr, idx, target)) % self.p
        return tot

    def value_einstein(self, expr):
        """Einstein convention per term; -> (union of targets, array)"""
        expr = to_sympy(expr).expand()
        terms = terms_of(expr)
        per = [einstein_targets(t) for t in terms]
        union = sorted({s for q in per for s in q}, key=idx_key)
        tot = np.zeros(tuple(len(self.m.domain(s)) for s in union),
                       dtype=np.int64)
        for t, tg in zip(terms, per):
            arr, idx = self.term_arr(t, keep=tg)
            tot = (tot + self.expand_to(arr, idx, union)) % self.p
        return union, tot

    def pointwise(self, expr, order, sum_other=True):
        """all indices in `order` are free; indices not in `order` are summed"""
        return self.value(expr, order)


def assignments(model, idx):
    """iterate (position tuple, {index: orbital}) over all assignments"""
    doms = [model.domain(s) for s in idx]
    for pos in itertools.product(*[range(len(d)) for d in doms]):
        yield pos, {s: int(d[k]) for s, d, k in zip(idx, doms, pos)}
