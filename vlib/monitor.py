"""Monitor layer: attach contracts to the library's own callables without editing
the repository - wrap, then rebind every alias in every loaded adcgen module."""
import contextlib
import json
import os
import sys
import time

GUARD = 'ADCGEN_VERIF_MONITORS'


class PropertyViolation(Exception):
    pass


_depth = [0]
ERRORS = []   # exceptions raised by monitor conditions (harness bugs)


def in_monitor():
    return _depth[0] > 0


@contextlib.contextmanager
def guard():
    """the monitor's own calls into the library are not monitored"""
    _depth[0] += 1
    try:
        yield
    finally:
        _depth[0] -= 1


def enabled():
    return os.environ.get(GUARD, '') not in ('', '0')


def rebind(module, name, wrapper):
    """replace module.name by wrapper in `module` and in every loaded adcgen.*
    module that holds an alias (``from .func import wicks``); returns undo()."""
    orig = getattr(module, name)
    touched = []
    for mname, mod in list(sys.modules.items()):
        if mod is None or not (mname == 'adcgen' or mname.startswith('adcgen.')):
            continue
        for attr, val in list(vars(mod).items()):
            if val is orig:
                setattr(mod, attr, wrapper)
                touched.append((mod, attr))

    def undo():
        for mod, attr in touched:
            setattr(mod, attr, orig)
    undo.n_bound = len(touched)
    return undo


def patch_method(cls, name, wrapper_factory):
    """replace cls.name by wrapper_factory(original); returns undo()."""
    orig = cls.__dict__[name]
    setattr(cls, name, wrapper_factory(orig))

    def undo():
        setattr(cls, name, orig)
    return undo


class EventLog:
    """append-only JSONL event log of monitored calls (input of the offline
    checkers)"""

    def __init__(self, path=None):
        self.path = path
        self.events = []
        self.seq = 0

    def add(self, fn, **data):
        self.seq += 1
        ev = {'seq': self.seq, 'fn': fn, 't': round(time.time(), 4)}
        ev.update(data)
        self.events.append(ev)
        return ev

    def dump(self):
        if self.path:
            with open(self.path, 'a') as f:
                for ev in self.events:
                    f.write(json.dumps(ev, default=str) + '\n')


def ensure(condition, counter=None):
    """Post-condition decorator with icontract's calling convention (condition
    receives the call's arguments by name plus ``result``) for callables that
    *recurse through their public name*: icontract checks only the outermost call
    of a recursion (re-entrancy guard), this one checks every call.  Conditions
    record and return True; a False return raises PropertyViolation."""
    import functools
    import inspect

    def deco(fn):
        sig = inspect.signature(fn)
        want = set(inspect.signature(condition).parameters)

        @functools.wraps(fn)
        def wrapper(*args, **kwargs):
            result = fn(*args, **kwargs)
            if in_monitor():
                return result
            ba = sig.bind(*args, **kwargs)
            ba.apply_defaults()
            kw = {k: v for k, v in ba.arguments.items() if k in want}
            if 'result' in want:
                kw['result'] = result
            if counter is not None:
                counter[0] += 1
            try:
                ok = condition(**kw)
            except Exception as ex:  # noqa: BLE001 - a bug of the monitor must
                # never surface inside the library call it observes
                import traceback
                ERRORS.append(f'{condition.__name__}: {type(ex).__name__}: {ex}\n'
                              + traceback.format_exc()[-1500:])
                return result
            if ok is False:
                raise PropertyViolation(f'{condition.__name__} failed')
            return result
        wrapper.__wrapped_original__ = fn
        return wrapper
    return deco


def safe(condition):
    """wrap a condition for icontract: exceptions of the monitor itself are
    recorded in ERRORS (-> harness_error / inconclusive) instead of surfacing
    inside the observed library call"""
    import functools

    @functools.wraps(condition)
    def wrapper(*args, **kwargs):
        try:
            return condition(*args, **kwargs)
        except Exception as ex:  # noqa: BLE001
            import traceback
            ERRORS.append(f'{condition.__name__}: {type(ex).__name__}: {ex}\n'
                          + traceback.format_exc()[-1500:])
            return True
    return wrapper
