"""Model Hamiltonians + explicit RSPT -> a tensor model whose ground-state amplitude
tensors are the coefficients of the explicitly computed perturbed wavefunctions."""
import numpy as np

from . import tm, fock


def antisym_random(model, name, k, bk=0):
    """random antisymmetric array over all N orbitals with rank (k, k)"""
    m = model.derive(sym={**model.sym, name: bk})
    return m.full('anti', name, k, k)


class GSRef:
    def __init__(self, variant, singles, n_o, n_v, mseed, order, p=tm.PRIMES[0],
                 amp_orders=None, extra_explicit=None, sym=None):
        self.variant, self.singles = variant, singles
        self.n_o, self.n_v, self.N = n_o, n_v, n_o + n_v
        base = tm.Model(n_o, n_v, seed=mseed, p=p, sym={'V': 1, 'f': 1})
        self.p = p
        N = self.N
        self.V = base.full('anti', 'V', 2, 2)
        self.e = base.e
        if variant == 'mp':
            self.f = np.diag(self.e) % p
        else:
            f = base.full('anti', 'f', 1, 1).copy()
            if not singles:
                f[:n_o, n_o:] = 0
                f[n_o:, :n_o] = 0
            self.f = f % p
        self.fs = fock.Fock(n_o, n_v, p)
        self.ham = fock.Hamiltonian(self.fs, self.f, self.V, variant)
        s1 = None
        if variant == 'mp' and singles:
            # free first-order singles (zero for a HF reference): random values
            s1 = base.full('non', 'singles1', 2, 0)
        self.rspt = fock.RSPT(self.ham, order, first_order_singles=s1)
        self.order = order
        explicit = {('f', 1, 1): self.f, ('V', 2, 2): self.V}
        kmax = min(n_o, n_v)
        self.amps = {}
        for n in range(1, order + 1):
            for k in range(1, 2 * n + 1):
                if k <= kmax:
                    arr = self.rspt.amplitude(n, k)
                else:
                    arr = None  # class does not exist in this space: zero
                self.amps[(n, k)] = arr
        for (n, k), arr in self.amps.items():
            if arr is None:
                arr = _Zero()
            explicit[(f't{n}', k, k)] = arr
            explicit[(f't{n}cc', k, k)] = arr
        if extra_explicit:
            explicit.update(extra_explicit)
        s = {'V': 1, 'f': 1}
        s.update(sym or {})
        self.model = tm.Model(n_o, n_v, seed=mseed, p=p, sym=s,
                              explicit=explicit)
        self.model.e = self.e
        self.ev = tm.Evaluator(self.model)

    def with_explicit(self, extra):
        ex = dict(self.model.explicit)
        ex.update(extra)
        m = self.model.derive(explicit=ex)
        m.e = self.e
        return m

    def amp_block(self, n, k):
        """explicit t^(n) of class k as array over (occ^k, virt^k) i.e. axes
        (i.., a..) like the library's target order 'ij..ab..'"""
        arr = self.amps[(n, k)]
        n_o, N = self.n_o, self.N
        if arr is None:
            return np.zeros((n_o,) * k + (self.n_v,) * k, dtype=np.int64)
        occ, virt = np.arange(n_o), np.arange(n_o, N)
        blk = arr[np.ix_(*([virt] * k + [occ] * k))]
        return np.transpose(blk, list(range(k, 2 * k)) + list(range(k)))


class _Zero:
    """explicit all-zero tensor of any requested shape"""
    ndim = None

    def __call__(self, model, ud, ld):
        return np.zeros(tuple(len(d) for d in list(ud) + list(ld)),
                        dtype=np.int64)
