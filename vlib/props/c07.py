"""C07 - simplify preserves the value and merges alpha-equivalent terms."""
import numpy as np

from ..common import fp, lib_call, rng_for
from .. import ir

LEVEL = 'exploration'
BATCH = 25
CASE_TIMEOUT = 300
RULE = ("generated sums of tensor products (2-8 terms, 1-4 tensors per term, "
        "exponents, repeated tensors, deltas, symbols, rational/sqrt prefactors, "
        "explicit or Einstein targets, spin-labelled indices, real/complex "
        "assumptions, declared bra-ket symmetries) containing alpha-renamed copies "
        "(injective renaming of contracted indices composed with slot permutations "
        "inside declared symmetries, done on the IR); simplify's result is compared "
        "in value on every target assignment, in term count and assumptions; "
        "completeness cases c*T + c'*rho(T) must end in <= 1 term. Also every "
        "sampled internal simplify call of real derivations. non-trivial: >= 1 pair "
        "of terms actually merged; distinct by structural IR fingerprint.")
ASSUMPTIONS = ["TM values respect exactly the declared symmetries (keyed hash of "
               "canonicalised orbital tuples)"]


def floors(tier):
    q = {'direct_simplify_calls': 150, 'merged_cases': 60,
         'completeness_pairs': 200, 'internal_simplify_checked': 10,
         'points_compared': 2000}
    if tier == 'thorough':
        q = {k: v * 5 for k, v in q.items()}
    return q


def _assumptions(r):
    a = {'real': r.random() < 0.4, 'sym_tensors': [], 'antisym_tensors': []}
    if r.random() < 0.3:
        a['sym_tensors'] = r.sample(['d', 'w2', 'V'], r.randint(1, 2))
    if r.random() < 0.15:
        a['antisym_tensors'] = ['g']
    return a


def model_sym(assump, extra=None):
    sym = {}
    if assump['real']:
        sym.update({'V': 1, 'f': 1})
    for n in assump['sym_tensors']:
        sym[n] = 1
    for n in assump['antisym_tensors']:
        sym[n] = -1
    sym.update(extra or {})
    return sym


def gen_cases(tier, seed):
    from ..gen import ExprGen, CATALOGUE
    r = rng_for(seed, 'C07', tier)
    n_sound = 260 if tier == 'quick' else 2600
    n_comp = 600 if tier == 'quick' else 5000
    cat = CATALOGUE + [dict(name='g', t='anti', nu=2, nl=2, rule='any', w=1),
                       dict(name='t1cc', t='amp', nu=2, nl=2, rule='amp', w=1)]
    cases = []
    for k in range(n_sound + n_comp):
        comp = k >= n_sound
        spin = r.random() < 0.15
        g = ExprGen(r, cat, spin=spin, deltas=0.0,
                    general=r.choice([0.0, 0.15, 0.3]))
        assump = _assumptions(r)
        maxobj = 4 if tier == 'quick' else 5
        names = None
        if comp and r.random() < 0.6:
            # rank-4 tensors: several candidate index maps per term pair
            names = ['V', 't1', 'Y', 'v', 'g'] + r.sample(['f', 'x', 'd'], 1)
        elif not comp and r.random() < 0.2:
            # tensors without any symmetry only: nothing but the index pattern
            # distinguishes a term from its transposed partner
            names = ['x', 'y', 'z']
        unit_diff = comp and r.random() < 0.12
        if unit_diff:
            # a single object (trace, partial trace, power) whose two copies get
            # prefactors differing by exactly 1: the difference of the matched
            # terms is a bare tensor, not a product
            names = None
        first = g.term(nobj=1 if unit_diff else r.randint(2, maxobj) if names
                       else r.randint(1, maxobj), names=names)
        if first is None:
            continue
        if comp and not unit_diff and r.random() < 0.12:
            # a diagonal block (both indices in one space) of a tensor that is
            # declared bra-ket antisymmetric: its canonical orientation depends
            # on the index names, renamed copies must still be matched
            used = set(ir.term_indices(first))
            sp_ = r.choice(['occ', 'virt'])
            sfx = r.choice('ab') if spin else ''
            p_ = g.fresh(sp_, used, sfx)
            used.add(p_)
            q_ = g.fresh(sp_, used, sfx)
            rank2 = r.random() < 0.3
            if rank2:
                used.add(q_)
                p2 = g.fresh(sp_, used, sfx)
                used.add(p2)
                q2 = g.fresh(sp_, used, sfx)
                first['objs'].append({'t': 'anti', 'name': 'g', 'up': [p_, p2],
                                      'lo': [q_, q2], 'bk': 0})
                first['objs'].append({'t': 'non', 'name': 'x',
                                      'up': [p_, q_, p2, q2]})
                assump['antisym_tensors'] = ['g']
            else:
                first['objs'].append({'t': 'anti', 'name': 'h', 'up': [p_],
                                      'lo': [q_], 'bk': 0})
                first['objs'].append({'t': 'non', 'name': 'x', 'up': [p_, q_]})
                assump['antisym_tensors'] = ['h']
            assump['sym_tensors'] = [n_ for n_ in assump['sym_tensors']
                                     if n_ not in ('g', 'h')]
        targets = ir.term_targets(first)
        if targets and r.random() < 0.25:
            # unevaluated delta linking a target with a contracted index
            t0 = r.choice(targets)
            n0, sp0 = ir.split_index(t0)
            c0 = g.fresh(ir.index_space(n0), set(ir.term_indices(first)), sp0)
            first = ir.rename_term(first, {t0: c0})
            first['objs'].append({'t': 'delta', 'up': [t0, c0]})
        terms = [first]
        if comp and not unit_diff and r.random() < 0.06:
            # mixed-space spin blocks (o_a v_b | o_b v_a) of a bra-ket symmetric
            # tensor: the bra/ket orientation must not depend on the index names
            nm_ = r.choice(['V', 'w2'])
            s1_, s2_ = r.choice([('a', 'b'), ('b', 'a')])
            I, A, J, B = f'i:{s1_}', f'a:{s2_}', f'j:{s2_}', f'b:{s1_}'
            big = {'t': 'anti', 'name': nm_, 'up': [I, A], 'lo': [J, B], 'bk': 0}
            first = {'pref': r.choice(['1', '2', '-1/2']),
                     'objs': [big, {'t': 'non', 'name': 'x', 'up': [I, A]},
                              {'t': 'non', 'name': 'y', 'up': [J, B]}]}
            targets = []
            spin = True
            g = ExprGen(r, cat, spin=True, deltas=0.0, general=0.0)
            t2, sign, _ = g.alpha_rename(first, targets)
            c = r.choice(['1', '-1', '2', '1/3'])
            t2['pref'] = f"({first['pref']})*({c})*({sign})"
            terms = [first, t2]
            assump = {'real': nm_ == 'V', 'sym_tensors': ['w2'] if nm_ == 'w2'
                      else [], 'antisym_tensors': []}
        elif comp and not unit_diff and r.random() < 0.06:
            # a bra-ket antisymmetric tensor with a target and a contracted index
            # both in the bra and in the ket: exchanging the names of the two
            # contracted indices flips the stored orientation of the tensor
            # (d^{la}_{kb} = -d^{kb}_{la}); the renamed copy must still be merged
            nm_ = r.choice(['g', 'h2'])
            csp, tsp = r.choice([('ijkl', 'abcd'), ('abcd', 'ijkl'),
                                 ('ijkl', 'ijkl'), ('abcd', 'abcd')])
            K, L = r.sample(list(csp), 2)
            A, B = r.sample([x_ for x_ in tsp if x_ not in (K, L)], 2)
            up, lo = ([K, A], [L, B]) if r.random() < 0.5 else ([A, K], [B, L])
            if r.random() < 0.3:
                up, lo = [K], [B]      # rank (1,1): contracted bra, target ket
            big = {'t': 'anti', 'name': nm_, 'up': up, 'lo': lo, 'bk': 0}
            sx, sy = r.choice([('x', 'y'), ('z', 'z2'), ('x', 'x')])
            objs = [big, {'t': 'non', 'name': sx, 'up': [K]}]
            if L in lo:
                objs.append({'t': 'non', 'name': sy, 'up': [L]})
            first = {'pref': r.choice(['1', '2', '-1/2']), 'objs': objs}
            targets = ir.term_targets(first)
            t2 = ir.rename_term(first, {K: L, L: K}) if L in lo else \
                ir.rename_term(first, {K: r.choice([x_ for x_ in csp
                                                    if x_ not in (K, A, B)])})
            sign = 1
            if r.random() < 0.4:
                spin = False
                g = ExprGen(r, cat, spin=False, deltas=0.0, general=0.0)
                t2, sign, _ = g.alpha_rename(t2, targets)
            c = r.choice(['1', '-1', '2', '1/3'])
            t2['pref'] = f"({first['pref']})*({c})*({sign})"
            terms = [first, t2]
            spin = False
            assump = {'real': False, 'sym_tensors': [],
                      'antisym_tensors': [nm_]}
        elif comp and not unit_diff and r.random() < 0.07:
            # repeated identical tensors: the partner needs a swap of two indices
            # that carry the same name and the same pattern in both terms
            # V^{ij}_{ab} z_ai z_bj  vs  V^{ij}_{ab} z_bi z_aj  (= -first)
            vname = r.choice(['V', 'g', 'Y'])
            two = r.choice([('non', 'x'), ('amp', 't2'), ('anti', 'f')])
            def pair(p_, q_):
                if two[0] == 'non':
                    return {'t': 'non', 'name': 'x', 'up': [p_, q_]}
                if two[0] == 'amp':
                    return {'t': 'amp', 'name': 't2', 'up': [p_], 'lo': [q_]}
                return {'t': 'anti', 'name': 'f', 'up': [p_], 'lo': [q_], 'bk': 0}
            big = {'t': 'amp' if vname == 'Y' else 'anti', 'name': vname,
                   'up': ['a', 'b'], 'lo': ['i', 'j']}
            if big['t'] == 'anti':
                big['bk'] = 0
            first = {'pref': r.choice(['1', '2', '-1/2']),
                     'objs': [big, pair('a', 'i'), pair('b', 'j')]}
            if r.random() < 0.4:     # a spectator with a target index
                first['objs'].append({'t': 'non', 'name': 'z', 'up': ['k']})
            targets = ir.term_targets(first)
            t2 = {'pref': first['pref'],
                  'objs': [dict(big), pair('b', 'i'), pair('a', 'j')]
                  + [dict(o_) for o_ in first['objs'][3:]]}
            t2, sign, _ = g.alpha_rename(t2, targets) if r.random() < 0.5 \
                else (t2, 1, None)
            c = r.choice(['1', '-1', '2', '1/3'])
            t2['pref'] = f"({first['pref']})*({c})*({sign})"
            terms = [first, t2]
            assump = {'real': False, 'sym_tensors': [], 'antisym_tensors': []}
        elif comp and unit_diff:
            t2, sign, _ = g.alpha_rename(first, targets)
            c1, c2 = r.choice([('2', '1'), ('3/2', '1/2'), ('1/2', '-1/2'),
                               ('-1', '-2'), ('1', '2'), ('1', '-1')])
            first['pref'] = c1
            t2['pref'] = f"({c2})*({sign})"
            terms.append(t2)
        elif comp:
            ncopies = r.choice([1, 1, 2])
            for _ in range(ncopies):
                t2, sign, _ = g.alpha_rename(first, targets)
                c = r.choice(['1', '-1', '2', '1/3', '-1/2'])
                if r.random() < 0.25:  # exact cancellation
                    c = '-1' if sign == 1 else '1'
                    t2['pref'] = first['pref']
                    t2['pref'] = f"({t2['pref']})*({c})*({sign})"
                else:
                    t2['pref'] = f"({first['pref']})*({c})*({sign})"
                terms.append(t2)
        elif r.random() < 0.15 and len(targets) >= 2:
            # the partner term with two target indices of one space exchanged
            # (transposed term): only equal if the term is symmetric in them
            by = {}
            for t_ in targets:
                n_, sp_ = ir.split_index(t_)
                by.setdefault((ir.index_space(n_), sp_), []).append(t_)
            groups = [v for v in by.values() if len(v) >= 2]
            if groups:
                a_, b_ = r.sample(r.choice(groups), 2)
                t2 = ir.rename_term(first, {a_: b_, b_: a_})
                t2, sign, _ = g.alpha_rename(t2, targets)
                t2['pref'] = f"({first['pref']})*({r.choice(['1', '-1'])})" \
                             f"*({sign})"
                terms.append(t2)
        else:
            nterms = r.randint(1, 4 if tier == 'quick' else 6)
            for _ in range(nterms):
                if r.random() < 0.6:
                    src = r.choice(terms)
                    t2, sign, _ = g.alpha_rename(src, targets)
                    c = r.choice(['1', '-1', '2', '1/3', '-3/2'])
                    t2['pref'] = f"({src['pref']})*({c})*({sign})"
                    terms.append(t2)
                elif r.random() < 0.4 and len(targets) >= 2:
                    # NOT alpha-equivalent: two target indices of one space
                    # exchanged (must not be merged unless truly symmetric)
                    src = r.choice(terms)
                    by = {}
                    for t_ in targets:
                        n_, sp_ = ir.split_index(t_)
                        by.setdefault((ir.index_space(n_), sp_), []).append(t_)
                    groups = [v for v in by.values() if len(v) >= 2]
                    if groups:
                        a_, b_ = r.sample(r.choice(groups), 2)
                        t2 = ir.rename_term(src, {a_: b_, b_: a_})
                        t2, sign, _ = g.alpha_rename(t2, targets)
                        c = r.choice(['1', '-1', '-1', '2'])
                        t2['pref'] = f"({src['pref']})*({c})*({sign})"
                        terms.append(t2)
                else:
                    t2 = g.term(targets=targets, nobj=r.randint(1, maxobj))
                    if t2 is not None:
                        terms.append(t2)
        explicit = None
        if r.random() < 0.35:
            explicit = list(targets)
            if r.random() < 0.3 and not comp:
                # an index occurring twice declared as target
                cnt = ir.term_indices(first)
                twice = [s for s, n in cnt.items() if n == 2]
                if twice and all(ir.term_indices(t).get(twice[0], 0) in (0, 2)
                                 for t in terms):
                    pass  # kept simple: explicit == Einstein targets
        r.shuffle(terms)
        dims = r.choice([(2, 2), (2, 3), (3, 3)]) if not spin else (4, 4)
        cases.append({'id': f'C07-{tier[0]}{seed}-{k:05d}',
                      'mode': 'complete' if comp else 'sound',
                      'terms': terms, 'targets': targets, 'explicit': explicit,
                      'assump': assump, 'spin': spin, 'dims': list(dims),
                      'mseed': r.randrange(1 << 30)})
    for name in (['gs_energy_3', 'isr_block_pp_2', 'gs_amp_re_2', 'ev_mp_2']
                 if tier == 'quick' else
                 ['gs_energy_3', 'isr_block_pp_2', 'gs_amp_re_2', 'ev_mp_2',
                  'isr_block_ip_cpl_2', 'overlap_pp_2']):
        cases.append({'id': f'C07-{tier[0]}{seed}-pipe-{name}',
                      'mode': 'pipeline', 'pipeline': name, 'cost': 100,
                      'timeout': 1500, 'sample': 1,
                      'mseed': r.randrange(1 << 30)})
    return cases


def build_expr(case):
    from adcgen import Expr
    e = ir.mk_expr(case['terms'])
    a = case['assump']
    kw = {}
    if case['explicit'] is not None:
        kw['target_idx'] = [ir.mk_index(s) for s in case['explicit']]
    return Expr(e, real=a['real'], sym_tensors=a['sym_tensors'] or None,
                antisym_tensors=a['antisym_tensors'] or None, **kw)


def run_case(case, res):
    if case['mode'] == 'pipeline':
        return run_pipeline(case, res)
    from adcgen import simplify, Expr
    from sympy import S
    from .. import tm
    E = build_expr(case)
    a = case['assump']
    n_o, n_v = case['dims']
    alias = {f't{n}cc': f't{n}' for n in range(1, 5)} if a['real'] else {}
    model = tm.Model(n_o, n_v, seed=case['mseed'], spin=case['spin'],
                     sym=model_sym(a), alias=alias)
    ev = tm.Evaluator(model)
    tgt = [ir.mk_index(s) for s in case['targets']]
    n_in = _nterms(E.sympy)
    v0 = ev.value(E.sympy, tgt)
    R = lib_call(simplify, E)
    res.count('direct_simplify_calls')
    if not isinstance(R, Expr):
        res.violation(f'simplify returned {type(R)}')
        return
    n_out = _nterms(R.sympy)
    v1 = ev.value(R.sympy, tgt)
    res.count('points_compared', int(v0.size))
    res.nontrivial = n_out < n_in
    if n_out < n_in:
        res.count('merged_cases')
    res.fingerprint = fp(_shape(case['terms']), case['explicit'] is not None,
                         a, case['spin'])
    res.observed = {'input': str(E)[:300], 'output': str(R)[:300],
                    'terms_in': n_in, 'terms_out': n_out}
    if not np.array_equal(v0, v1):
        m2 = model.derive(p=tm.PRIMES[1])
        e2 = tm.Evaluator(m2)
        if not np.array_equal(e2.value(E.sympy, tgt), e2.value(R.sympy, tgt)):
            res.violation(f'simplify changed the value: {E}  ->  {R} '
                          f'(targets {case["targets"]}, assumptions {a})')
            return
    if n_out > n_in:
        res.violation(f'simplify returned more terms ({n_out}) than the input '
                      f'({n_in}): {E} -> {R}')
        return
    if R.assumptions != E.assumptions:
        res.violation(f'simplify changed the assumptions {E.assumptions} -> '
                      f'{R.assumptions}')
        return
    if case['mode'] == 'complete':
        res.count('completeness_pairs')
        if n_out > 1:
            res.violation(
                f'alpha-equivalent terms not merged: {E} -> {R} ({n_out} terms; '
                f'the input is c*T + c\'*rho(T) with rho a renaming of contracted '
                f'indices / declared symmetry permutation)')


def _shape(terms):
    out = []
    for t in terms:
        out.append(sorted((o['t'], o.get('name'), len(o.get('up', [])),
                           len(o.get('lo', [])), o.get('exp', 1))
                          for o in t['objs']))
    return sorted(out)


def _nterms(e):
    from sympy import Add, sympify
    e = sympify(e).expand()
    return len(e.args) if isinstance(e, Add) else int(e != 0)


# -- internal population ------------------------------------------------------------
def run_pipeline(case, res):
    import icontract
    import sys
    import adcgen  # noqa: F401
    simplify_mod = sys.modules['adcgen.simplify']
    from .. import tm, monitor
    model = tm.Model(2, 2, seed=case['mseed'])
    ev = tm.Evaluator(model)
    model_r = tm.Model(2, 2, seed=case['mseed'], sym={'V': 1, 'f': 1},
                       alias={f't{n}cc': f't{n}' for n in range(1, 5)})
    ev_r = tm.Evaluator(model_r)
    state = {'n': 0, 'checked': 0, 'merged': 0, 'skipped': 0}
    violations = []
    every = case['sample']

    def simplify_preserves_value(expr, result):
        if monitor.in_monitor():
            return True
        state['n'] += 1
        if state['n'] % every:
            return True
        with monitor.guard():
            try:
                if expr.sym_tensors and set(expr.sym_tensors) - {'V', 'f'} or \
                        expr.antisym_tensors:
                    state['skipped'] += 1
                    return True
                e = ev_r if expr.real else ev
                tgt = expr.provided_target_idx
                if tgt is None:
                    u0, v0 = e.value_einstein(expr.sympy)
                    u1, v1 = e.value_einstein(result.sympy)
                    if u0 != u1:
                        if result.sympy == 0 and not np.any(v0):
                            v1 = v0
                        elif expr.sympy == 0:
                            v0 = v1 if not np.any(v1) else None
                        else:
                            union = sorted(set(u0) | set(u1), key=tm.idx_key)
                            v0 = e.expand_to(v0, u0, union)
                            v1 = e.expand_to(v1, u1, union)
                else:
                    v0 = e.value(expr.sympy, tgt)
                    v1 = e.value(result.sympy, tgt)
                n_in, n_out = _nterms(expr.sympy), _nterms(result.sympy)
                state['checked'] += 1
                if n_out < n_in:
                    state['merged'] += 1
                if v0 is None or not np.array_equal(v0, v1):
                    violations.append(f'internal simplify changed the value: '
                                      f'{str(expr)[:400]} -> {str(result)[:400]}')
                if n_out > n_in:
                    violations.append('internal simplify: more terms than input')
            except tm.ModelUnusable:
                state['skipped'] += 1
        return True

    wrapped = icontract.ensure(monitor.safe(simplify_preserves_value),
                               error=monitor.PropertyViolation)(
        simplify_mod.simplify)
    undo = monitor.rebind(simplify_mod, 'simplify', wrapped)
    try:
        lib_call(_PIPE[case['pipeline']])
    finally:
        undo()
    res.count('internal_simplify_calls', state['n'])
    res.count('internal_simplify_checked', state['checked'])
    res.count('internal_simplify_merged', state['merged'])
    res.count('internal_skipped', state['skipped'])
    res.nontrivial = state['merged'] > 0
    res.fingerprint = fp('pipeline', case['pipeline'])
    res.observed = dict(state)
    if monitor.ERRORS:
        res.status = 'harness_error'
        res.detail = monitor.ERRORS[0]
    if violations:
        res.violation(violations[0])


def _p1():
    from adcgen import GroundState, Operators
    GroundState(Operators('mp')).energy(3)


def _p2():
    from adcgen import (GroundState, Operators, IntermediateStates,
                        SecularMatrix)
    isr = IntermediateStates(GroundState(Operators('mp')), 'pp')
    SecularMatrix(isr).isr_matrix_block(2, 'ph,ph', 'ia,jb')


def _p3():
    from adcgen import GroundState, Operators
    GroundState(Operators('re'), True).amplitude(2, 'pphh', 'ijab')


def _p4():
    from adcgen import GroundState, Operators
    GroundState(Operators('mp')).expectation_value(2, 1)


def _p5():
    from adcgen import (GroundState, Operators, IntermediateStates,
                        SecularMatrix)
    isr = IntermediateStates(GroundState(Operators('mp')), 'ip')
    SecularMatrix(isr).isr_matrix_block(2, 'h,phh', 'i,jka')


def _p6():
    from adcgen import GroundState, Operators, IntermediateStates
    isr = IntermediateStates(GroundState(Operators('mp')), 'pp')
    isr.overlap_precursor(2, 'ph,ph', 'ia,jb')


_PIPE = {'gs_energy_3': _p1, 'isr_block_pp_2': _p2, 'gs_amp_re_2': _p3,
         'ev_mp_2': _p4, 'isr_block_ip_cpl_2': _p5, 'overlap_pp_2': _p6}
