"""C10 - reported permutational symmetries are true; decompositions are lossless."""
import numpy as np

from ..common import fp, lib_call, rng_for, Refused
from .. import ir

LEVEL = 'exploration'
BATCH = 20
CASE_TIMEOUT = 400
RULE = ("(a) Term.symmetry / Obj.symmetry (all / only_contracted / only_target "
        "modes) on generated terms incl. orbital-energy denominators: every "
        "reported (permutations, +-1) is checked pointwise (all indices free) by "
        "transposing the axes of the term's value array; (b) exploit_perm_sym on "
        "(anti)symmetrised expressions with target strings with/without ',', "
        "bra-ket symmetry, (anti)symmetric result tensor: sum_key (1 + sum_(P,s) s "
        "P) val(part) must equal val(E); (c) sort.by_* and filter_tensor: parts sum "
        "to val(E) and every term lies in the part whose key the harness recomputes"
        " from the raw objects; (d) LazyTermMap entries {i: j} for (P, s): val(P "
        "term_i) = s val(term_j). non-trivial: >= 1 symmetry / non-empty "
        "permutation key / >= 2 parts; distinct by structural fingerprint.")
ASSUMPTIONS = ["terms for the unrestricted symmetry mode keep <= 4 index occurrences"
               " per (space, spin) (the enumeration is factorial)"]


def floors(tier):
    q = {'symmetry_calls': 120, 'symmetries_checked': 120,
         'perm_sym_cases': 40, 'perm_keys_nonempty': 12, 'sort_calls': 300,
         'termmap_entries': 5}
    if tier == 'thorough':
        q = {k: v * 5 for k, v in q.items()}
    return q


def _count_by_group(term, occurrences=False):
    """largest number of distinct indices (or index occurrences) in one (space,
    spin) group"""
    cnt = {}
    for o in term['objs']:
        m = abs(o.get('exp', 1))
        for s in ir.obj_index_list(o):
            n, sp = ir.split_index(s)
            key = (ir.index_space(n), sp)
            if occurrences:
                cnt[key] = cnt.get(key, 0) + m
            else:
                cnt.setdefault(key, set()).add(s)
    if occurrences:
        return max(cnt.values(), default=0)
    return max((len(v) for v in cnt.values()), default=0)


def gen_cases(tier, seed):
    from ..gen import ExprGen, CATALOGUE
    r = rng_for(seed, 'C10', tier)
    mult = 1 if tier == 'quick' else 8
    cases = []
    k = 0
    cat = [c for c in CATALOGUE if c['name'] not in ('y',)]
    # (a) symmetry of terms / objects
    for _ in range(420 * mult):
        spin = r.random() < 0.15
        bk = {'V': r.choice([0, 1]), 'f': r.choice([0, 1]), 'd': r.choice([0, 1]),
              'v': 1}
        g = ExprGen(r, cat, spin=spin, general=0.1, exponents=0.1, hyper=0.05,
                    bk=bk, max_pool=4)
        t = g.term(nobj=r.choice([1, 1, 2, 2, 3]))
        mode = r.choice(['all', 'all', 'contracted', 'target'])
        # Term.symmetry enumerates products of transpositions of all index
        # *occurrences* of a (space, spin) group: factorial
        if t is None or _count_by_group(t) > 4 or \
                (mode == 'all' and _count_by_group(t, True) > 4):
            continue
        if r.random() < 0.3:
            idxs = sorted(ir.term_indices(t))
            occ = [s for s in idxs if s[0] in 'ijklmno']
            virt = [s for s in idxs if s[0] in 'abcdefgh']
            if occ and virt:
                e = [['1', s] for s in r.sample(occ, min(2, len(occ)))] + \
                    [['-1', s] for s in r.sample(virt, min(2, len(virt)))]
                t['objs'].append({'t': 'br', 'e': e, 'exp': -r.choice([1, 2])})
                if mode == 'all' and _count_by_group(t, True) > 4:
                    t['objs'].pop()
        cases.append({'id': f'C10-{tier[0]}{seed}-{k:05d}-sym', 'kind': 'sym',
                      'term': t, 'spin': spin,
                      'mode': mode, 'timeout': 90,
                      'mseed': r.randrange(1 << 30)})
        k += 1
    # (a2) four indices of one space on tensors that are not fully
    # (anti)symmetric: the symmetry group contains products of three overlapping
    # transpositions (4-cycles), whose composition order matters
    for _ in range(14 * mult):
        letters = r.choice(['ijkl', 'abcd', 'klmn', 'cdef'])
        w, x, y, z = r.sample(list(letters), 4)
        shape = r.choice(['bk22', 'bk22', 'prod', 'prod2', 'non4'])
        if shape == 'bk22':
            objs = [{'t': r.choice(['anti', 'sym']), 'name': r.choice('Vd'),
                     'up': [w, x], 'lo': [y, z], 'bk': r.choice([1, 1, -1])}]
        elif shape == 'prod':
            objs = [{'t': 'anti', 'name': 'f', 'up': [w], 'lo': [x], 'bk': 1},
                    {'t': 'anti', 'name': 'f', 'up': [y], 'lo': [z], 'bk': 1}]
        elif shape == 'prod2':
            objs = [{'t': 'non', 'name': 'x', 'up': [w, x]},
                    {'t': 'non', 'name': 'x', 'up': [y, z]}]
        else:
            objs = [{'t': 'non', 'name': 'x', 'up': [w, x, y, z]}]
        cases.append({'id': f'C10-{tier[0]}{seed}-{k:05d}-sym4', 'kind': 'sym',
                      'term': {'pref': r.choice(['1', '1/4', '-2']),
                               'objs': objs},
                      'spin': False, 'mode': r.choice(['all', 'target']),
                      'timeout': 90, 'mseed': r.randrange(1 << 30)})
        k += 1
    # (b) exploit_perm_sym, (d) term maps
    for _ in range(420 * mult):
        g = ExprGen(r, cat, general=0.0, exponents=0.0, hyper=0.0, symbols=0.05,
                    bk={'V': 1, 'f': 1}, max_pool=5)
        t = g.term(nobj=r.randint(1, 3))
        if t is None:
            continue
        tg = ir.term_targets(t)
        if not 2 <= len(tg) <= 4:
            continue
        if r.random() < 0.3:
            idxs = sorted(ir.term_indices(t))
            occ = [s for s in idxs if s[0] in 'ijklmno']
            virt = [s for s in idxs if s[0] in 'abcdefgh']
            if occ and virt:
                e = [['1', s] for s in r.sample(occ, min(2, len(occ)))] + \
                    [['-1', s] for s in r.sample(virt, min(2, len(virt)))]
                t['objs'].append({'t': 'br', 'e': e, 'exp': -1})
        terms = [t]
        # (anti)symmetrise w.r.t. random target transpositions
        for _s in range(r.choice([0, 1, 1, 1, 2, 2])):
            cand = [(p_, q_) for p_ in tg for q_ in tg if p_ < q_ and
                    ir.index_space(p_) == ir.index_space(q_)]
            if not cand:
                break
            p_, q_ = r.choice(cand)
            sg = r.choice(['1', '-1'])
            new = []
            for x in terms:
                y = ir.rename_term(x, {p_: q_, q_: p_})
                y['pref'] = f"({x['pref']})*({sg})"
                new.append(y)
            terms = terms + new
        if r.random() < 0.4:
            t2 = g.term(targets=tg, nobj=r.randint(1, 2))
            if t2 is not None:
                terms.append(t2)
        order = list(tg)
        r.shuffle(order)
        kw = {'anti': r.random() < 0.6, 'split': None, 'bk': 0}
        if r.random() < 0.4 and len(order) >= 2:
            kk = r.randint(1, len(order) - 1)
            kw['split'] = kk
            if kk == len(order) - kk and \
                    [ir.index_space(s) for s in order[:kk]] == \
                    [ir.index_space(s) for s in order[kk:]] and r.random() < 0.5:
                kw['bk'] = r.choice([1, -1])
        kind = 'perm' if r.random() < 0.75 else 'termmap'
        cases.append({'id': f'C10-{tier[0]}{seed}-{k:05d}-{kind}', 'kind': kind,
                      'terms': terms, 'order': order, 'opts': kw,
                      'mseed': r.randrange(1 << 30)})
        k += 1
    # (b1) partial orbits with explicit orbital-energy denominators over target
    # indices: a target permutation that leaves the tensor part (anti)symmetric but
    # changes the denominator is no symmetry of the term
    for _ in range(36 * mult):
        tn = r.choice(['x', 'x', 'Y'])
        def one(p_, q_):
            if tn == 'Y':
                return {'t': 'amp', 'name': 'Y', 'up': [q_], 'lo': [p_]}
            return {'t': 'non', 'name': 'x', 'up': [p_, q_]}
        objs = [one('i', 'a'), one('j', 'b')]
        den = r.choice([[['1', 'a'], ['-1', 'i']], [['1', 'i'], ['-1', 'a']],
                        [['1', 'i'], ['1', 'j'], ['-1', 'a']],
                        [['1', 'a'], ['1', 'b'], ['-1', 'i']]])
        objs.append({'t': 'br', 'e': den, 'exp': -r.choice([1, 1, 2])})
        if r.random() < 0.3:
            objs.append({'t': 'anti', 'name': 'V', 'up': ['i', 'j'],
                         'lo': ['a', 'b'], 'bk': 0})
        t0 = {'pref': r.choice(['1', '-1/2', '2']), 'objs': objs}
        a_, b_ = r.choice([('a', 'b'), ('i', 'j')])
        sg = r.choice(['1', '-1'])
        t1 = ir.rename_term(t0, {a_: b_, b_: a_})
        t1['pref'] = f"({t0['pref']})*({sg})"
        terms = [t0, t1]
        if r.random() < 0.3:      # the full orbit
            a2, b2 = ('i', 'j') if a_ == 'a' else ('a', 'b')
            extra = []
            for x in terms:
                y = ir.rename_term(x, {a2: b2, b2: a2})
                y['pref'] = f"({x['pref']})*({sg})"
                extra.append(y)
            terms = terms + extra
        order = ['i', 'j', 'a', 'b']
        split = 2
        if r.random() < 0.3:
            r.shuffle(order)
            split = None
        cases.append({'id': f'C10-{tier[0]}{seed}-{k:05d}-permden', 'kind': 'perm',
                      'terms': terms, 'order': order,
                      'explicit_targets': True,
                      'opts': {'anti': r.random() < 0.6, 'split': split, 'bk': 0},
                      'mseed': r.randrange(1 << 30)})
        k += 1
    # (b2) term maps over orbits of three same-space target indices: cyclic
    # products P_ij P_ik are not their own inverse
    for _ in range(10 * mult):
        sp = r.choice(['occ', 'virt'])
        i_, j_, k_ = {'occ': ['i', 'j', 'k'], 'virt': ['a', 'b', 'c']}[sp]
        l_ = {'occ': 'l', 'virt': 'd'}[sp]
        shape = r.choice(['plain', 'contracted', 'two'])
        if shape == 'plain':
            base = [{'t': 'non', 'name': 'x', 'up': [i_, j_, k_]}]
        elif shape == 'contracted':
            base = [{'t': 'non', 'name': 'x', 'up': [i_, l_]},
                    {'t': 'non', 'name': 'y', 'up': [l_, j_, k_]}]
        else:
            base = [{'t': 'non', 'name': 'x', 'up': [i_, j_]},
                    {'t': 'non', 'name': 'y', 'up': [k_]}]
        t0 = {'pref': r.choice(['1', '2', '-1/2']), 'objs': base}
        orbit = r.choice(['cyclic', 'cyclic', 'full'])
        cyc = {i_: j_, j_: k_, k_: i_}
        terms = [t0, ir.rename_term(t0, cyc),
                 ir.rename_term(ir.rename_term(t0, cyc), cyc)]
        if orbit == 'full':
            sg = r.choice(['1', '-1'])
            extra = []
            for x in terms:
                y = ir.rename_term(x, {i_: j_, j_: i_})
                y['pref'] = f"({x['pref']})*({sg})"
                extra.append(y)
            terms = terms + extra
        if r.random() < 0.5:      # unequal weights: not every rotation is a
            terms[1] = dict(terms[1], pref=f"({terms[1]['pref']})*(2)")  # symmetry
        order = [i_, j_, k_]
        r.shuffle(order)
        cases.append({'id': f'C10-{tier[0]}{seed}-{k:05d}-termmap3',
                      'kind': 'termmap', 'terms': terms, 'order': order,
                      'opts': {'anti': r.random() < 0.5, 'split': None, 'bk': 0},
                      'mseed': r.randrange(1 << 30)})
        k += 1
        # the same orbit through exploit_perm_sym (lossless re-expansion)
        cases.append({'id': f'C10-{tier[0]}{seed}-{k:05d}-perm3',
                      'kind': 'perm', 'terms': terms, 'order': list(order),
                      'opts': {'anti': r.random() < 0.5, 'split': None, 'bk': 0},
                      'mseed': r.randrange(1 << 30)})
        k += 1
    # (c) sorting / filtering
    for _ in range(110 * mult):
        spin = r.random() < 0.2
        g = ExprGen(r, cat, spin=spin, general=0.2, exponents=0.15,
                    symbols=0.05)
        first = g.term(nobj=r.randint(1, 3))
        if first is None:
            continue
        tg = ir.term_targets(first)
        terms = [first]
        for _t in range(r.randint(1, 5)):
            t2 = g.term(targets=tg, nobj=r.randint(1, 4))
            if t2 is None:
                continue
            # deltas on contracted / target indices
            if r.random() < 0.4:
                idxs = sorted(ir.term_indices(t2))
                a = r.choice(idxs)
                same = [s for s in idxs if s != a and
                        ir.index_space(ir.split_index(s)[0]) ==
                        ir.index_space(ir.split_index(a)[0]) and
                        ir.split_index(s)[1] == ir.split_index(a)[1]]
                if same:
                    t2['objs'].append({'t': 'delta', 'up': [a, r.choice(same)]})
            terms.append(t2)
        cases.append({'id': f'C10-{tier[0]}{seed}-{k:05d}-sort', 'kind': 'sort',
                      'terms': terms, 'targets': tg, 'spin': spin,
                      'mseed': r.randrange(1 << 30)})
        k += 1
    # the matrices of the repository's own tests
    for name in ['pp_adc2_ph_ph', 'mp2_density']:
        cases.append({'id': f'C10-{tier[0]}{seed}-real-{name}', 'kind': 'real',
                      'name': name, 'cost': 200, 'timeout': 1500,
                      'mseed': r.randrange(1 << 30)})
    return cases


def run_case(case, res):
    return {'sym': run_sym, 'perm': run_perm, 'termmap': run_termmap,
            'sort': run_sort, 'real': run_real}[case['kind']](case, res)


def apply_perms(arr, order, perms):
    """value array of (P_1 P_2 ... term): transpose the axes one transposition
    after another (axes follow `order`)"""
    for p_, q_ in perms:
        if p_ in order and q_ in order:
            arr = np.swapaxes(arr, order.index(p_), order.index(q_))
        elif p_ in order or q_ in order:
            raise KeyError((p_, q_))
    return arr


def run_sym(case, res):
    from adcgen import Expr
    from sympy import S
    from .. import tm
    t = ir.mk_term(case['term'])
    if t is S.Zero or t.is_number:
        res.skip('zero term')
        return
    E = Expr(t)
    term = E.terms[0]
    mode = case['mode']
    kw = {'all': {}, 'contracted': {'only_contracted': True},
          'target': {'only_target': True}}[mode]
    model = tm.Model(4 if case['spin'] else 2, 4 if case['spin'] else 3,
                     seed=case['mseed'], spin=case['spin'],
                     sym={'V': 1, 'f': 1, 'd': 1, 'v': 1})
    # the model's bra-ket symmetry must be the objects': use names per bk
    msym = {}
    for o in case['term']['objs']:
        if o.get('bk'):
            msym[o['name']] = o['bk']
    model = tm.Model(model.n_o, model.n_v, seed=case['mseed'], spin=case['spin'],
                     sym=msym)
    ev = tm.Evaluator(model)
    order = sorted(tm.count_indices(t), key=tm.idx_key)
    try:
        A = ev.value(t, order)
    except tm.ModelUnusable:
        res.skip('model unusable')
        return
    syms = lib_call(term.symmetry, **kw)
    res.count('symmetry_calls')
    n = 0
    for perms, fac in syms.items():
        n += 1
        try:
            B = apply_perms(A, order, perms)
        except KeyError:
            res.violation(f'symmetry of {t} reports a permutation {perms} of an '
                          f'index that is not in the term')
            return
        if not np.array_equal(B, (fac * A) % model.p):
            res.violation(f'Term.symmetry({mode}) of {t} reports {perms} with '
                          f'factor {fac}, but the permuted term is not {fac} x '
                          f'the term (pointwise, all indices free)')
            return
    # objects
    for obj in term.objects:
        if not hasattr(obj.base, 'symbol'):
            continue
        osyms = lib_call(obj.symmetry)
        oorder = sorted(tm.count_indices(obj.sympy), key=tm.idx_key)
        OA = ev.value(obj.sympy, oorder)
        for perms, fac in osyms.items():
            n += 1
            if not np.array_equal(apply_perms(OA, oorder, perms),
                                  (fac * OA) % model.p):
                res.violation(f'Obj.symmetry of {obj} reports {perms} with '
                              f'factor {fac}: not true pointwise')
                return
    res.count('symmetries_checked', n)
    res.count('points_compared', int(A.size) * max(n, 1))
    res.nontrivial = len(syms) > 0
    res.fingerprint = fp('sym', mode, _shape([case['term']]), len(syms))
    res.observed = {'term': str(t), 'mode': mode,
                    'reported': {str(k): v for k, v in list(syms.items())[:6]}}


def _perm_kwargs(case):
    order, o = case['order'], case['opts']
    names = [ir.split_index(s)[0] for s in order]
    tstr = ''.join(names)
    if o['split']:
        tstr = ''.join(names[:o['split']]) + ',' + ''.join(names[o['split']:])
    kw = {'target_indices': tstr, 'antisymmetric_result_tensor': o['anti']}
    if o['bk']:
        kw['bra_ket_sym'] = o['bk']
    return kw


def run_perm(case, res):
    from adcgen import Expr, sort
    from .. import tm
    e = ir.mk_expr(case['terms']).expand()
    if e == 0:
        res.skip('zero input')
        return
    order = [ir.mk_index(s) for s in case['order']]
    # denominators over target indices: the targets have to be given explicitly
    E = Expr(e, real=True, target_idx=order) if case.get('explicit_targets') \
        else Expr(e, real=True)
    kw = _perm_kwargs(case)
    model = tm.Model(2, 3, seed=case['mseed'], sym={'V': 1, 'f': 1})
    ev = tm.Evaluator(model)
    try:
        ref = ev.value(E.sympy, order)
    except tm.ModelUnusable:
        res.skip('model unusable')
        return
    parts = lib_call(sort.exploit_perm_sym, E, **kw)
    res.count('perm_sym_cases')
    tot = np.zeros_like(ref)
    nkeys = 0
    for key, part in parts.items():
        v = ev.value(tm.to_sympy(part), order)
        acc = v.copy()
        for perms, fac in key:
            nkeys += 1
            acc = (acc + fac * apply_perms(v, order, perms)) % model.p
        tot = (tot + acc) % model.p
    if nkeys:
        res.count('perm_keys_nonempty')
    res.count('points_compared', int(ref.size))
    res.nontrivial = nkeys > 0
    res.fingerprint = fp('perm', _shape(case['terms']), kw)
    res.observed = {'input': str(E)[:250], 'kwargs': kw,
                    'parts': {str(k): str(v)[:120] for k, v in parts.items()}}
    if not np.array_equal(tot, ref):
        res.violation(f'exploit_perm_sym({E}, {kw}): applying the reported '
                      f'permutations to the parts does not reproduce the value; '
                      f'parts {({str(k): str(v) for k, v in parts.items()})}')


def run_termmap(case, res):
    from adcgen import Expr
    from adcgen.symmetry import LazyTermMap
    from .. import tm
    e = ir.mk_expr(case['terms']).expand()
    if e == 0:
        res.skip('zero input')
        return
    E = Expr(e, real=True)
    if len(E) < 2:
        res.skip('single term')
        return
    order = [ir.mk_index(s) for s in case['order']]
    model = tm.Model(2, 3, seed=case['mseed'], sym={'V': 1, 'f': 1})
    ev = tm.Evaluator(model)
    tmap = LazyTermMap(E)
    terms = E.terms
    themap = lib_call(tmap.evaluate, case['opts']['anti'],
                      refusals=('Inputerror', 'NotImplementedError'))
    n = 0
    try:
        vals = [ev.value(t.sympy, order) for t in terms]
    except tm.ModelUnusable:
        res.skip('model unusable')
        return
    for (perms, fac), m in themap.items():
        for i, j in m.items():
            n += 1
            if not np.array_equal(apply_perms(vals[i], order, perms),
                                  (fac * vals[j]) % model.p):
                res.violation(f'LazyTermMap of {E}: entry {i}->{j} for '
                              f'({perms}, {fac}): P term_i != {fac} term_j')
                return
    res.count('termmap_entries', n)
    res.count('termmap_cases')
    res.nontrivial = n > 0
    res.fingerprint = fp('termmap', _shape(case['terms']), case['opts']['anti'])
    res.observed = {'input': str(E)[:250], 'entries': n}


def _block(idx):
    space = ''.join(s.space[0] for s in idx)
    spin = ''.join(s.spin if s.spin else 'n' for s in idx)
    return space if all(c == 'n' for c in spin) else f'{space}_{spin}'


def _objs(term):
    """[(base, |exponent|)] of a product"""
    from sympy import Mul, Pow
    out = []
    for f in (term.args if isinstance(term, Mul) else (term,)):
        if isinstance(f, Pow) and f.args[1].is_Integer:
            out.append((f.args[0], int(f.args[1])))
        else:
            out.append((f, 1))
    return out


def expected_key(fn, term, t_name):
    from .. import tm
    objs = _objs(term)
    tensors = [(b, n) for b, n in objs if hasattr(b, 'symbol')]
    deltas = [(b, n) for b, n in objs
              if b.__class__.__name__ == 'KroneckerDelta']
    targets = tm.einstein_targets(term)
    if fn == 'by_delta_types':
        key = sorted(_block(b.idx) for b, n in deltas for _ in range(n))
        return tuple(key) or ('none',)
    if fn == 'by_delta_indices':
        key = sorted(''.join(str(s) for s in b.idx) for b, n in deltas
                     for _ in range(n))
        return tuple(key) or ('none',)
    if fn == 'by_tensor_block':
        key = sorted(_block(b.idx) for b, n in tensors if b.name == t_name
                     for _ in range(abs(n)))
        return tuple(key) or ('none',)
    if fn == 'by_tensor_target_block':
        key = []
        for b, n in tensors:
            if b.name == t_name:
                tt = [s for s in b.idx if s in targets]
                if not tt:
                    key.append('none')
                    continue
                blk = ''.join(s.space[0] for s in tt)
                if any(s.spin for s in tt):
                    blk += '_' + ''.join(s.spin if s.spin else 'n' for s in tt)
                key.append(blk)
        return tuple(sorted(key)) or (f'no_{t_name}',)
    if fn == 'by_tensor_target_indices':
        key = []
        for b, n in tensors:
            if b.name == t_name:
                key.append(''.join(s.name for s in b.idx if s in targets)
                           or 'none')
        return tuple(sorted(key)) or (f'no_{t_name}',)
    raise ValueError(fn)


def run_sort(case, res):
    from adcgen import Expr, sort
    from adcgen.simplify import filter_tensor
    from collections import Counter
    from .. import tm
    e = ir.mk_expr(case['terms']).expand()
    if e == 0:
        res.skip('zero input')
        return
    E = Expr(e)
    tg = [ir.mk_index(s) for s in case['targets']]
    dims = (4, 4) if case['spin'] else (2, 3)
    model = tm.Model(dims[0], dims[1], seed=case['mseed'], spin=case['spin'])
    ev = tm.Evaluator(model)
    v0 = ev.value(E.sympy, tg)
    r = rng_for(case['mseed'], 'names')
    names = sorted({o['name'] for t in case['terms'] for o in t['objs']
                    if 'name' in o and o['t'] not in ('sym0',)})
    calls = [('by_delta_types', None), ('by_delta_indices', None)]
    for fn in ('by_tensor_block', 'by_tensor_target_block',
               'by_tensor_target_indices'):
        calls.append((fn, r.choice(names + ['nope'])))
    observed = {}
    for fn, name in calls:
        f = getattr(sort, fn)
        parts = lib_call(f, E, name) if name else lib_call(f, E)
        res.count('sort_calls')
        tot = np.zeros_like(v0)
        for key, part in parts.items():
            ps = tm.to_sympy(part)
            tot = (tot + ev.value(ps, tg)) % model.p
            for t in tm.terms_of(ps.expand()):
                exp = expected_key(fn, t, name)
                if tuple(key) != exp:
                    res.violation(f'sort.{fn}({E}, {name}): term {t} lies in '
                                  f'part {key}, its key is {exp}')
                    return
        if len(parts) >= 2:
            res.nontrivial = True
        observed[fn] = [str(k) for k in parts][:5]
        if not np.array_equal(tot, v0):
            res.violation(f'sort.{fn}({E}, {name}): the parts do not sum to the '
                          f'expression')
            return
    # filter_tensor: independent selection rule over the raw terms
    for strict in ('low', 'medium', 'high'):
        want = [r.choice(names) for _ in range(r.randint(1, 2))] if names \
            else ['V']
        got = lib_call(filter_tensor, E, want, strict)
        res.count('sort_calls')
        keep = []
        for t in tm.terms_of(E.sympy.expand()):
            avail = Counter()
            for b, n in _objs(t):
                if hasattr(b, 'symbol'):
                    avail[b.name] += abs(n)
            desired = Counter(want)
            if strict == 'low':
                ok = all(avail[x] > 0 for x in desired)
            elif strict == 'medium':
                ok = all(avail[x] == c for x, c in desired.items())
            else:
                amp = {x for x in avail if _is_amplitude(x)
                       and x not in want}
                av2 = Counter({x: c for x, c in avail.items() if x not in amp})
                ok = av2 == desired
            if ok:
                keep.append(t)
        from sympy import Add
        exp = Add(*keep)
        if (got.sympy - exp).expand() != 0:
            res.violation(f'filter_tensor({E}, {want}, {strict}) = {got}, the '
                          f'documented selection rule keeps {exp}')
            return
    res.count('points_compared', int(v0.size) * 5)
    res.fingerprint = fp('sort', _shape(case['terms']), case['spin'])
    res.observed = {'input': str(E)[:250], 'keys': observed}


def _is_amplitude(name):
    import re
    return bool(re.fullmatch(r't\d*(cc)?', name)) or name in ('X', 'Y')


def run_real(case, res):
    """the matrices of the repository's own tests"""
    from adcgen import (GroundState, Operators, IntermediateStates,
                        SecularMatrix, Expr, sort, simplify)
    from .. import tm
    gs = GroundState(Operators('mp'))
    if case['name'] == 'pp_adc2_ph_ph':
        isr = IntermediateStates(gs, 'pp')
        m = SecularMatrix(isr)
        e = 0
        for o in range(3):
            e += m.isr_matrix_block(o, 'ph,ph', 'ia,jb')
        E = Expr(e, real=True, target_idx='ijab')
        E = simplify(E)
        kw = {'target_indices': 'ia,jb', 'bra_ket_sym': 1}
        order_names = ['i', 'a', 'j', 'b']
    else:
        e = gs.expectation_value(2, 1)
        from adcgen import remove_tensor
        E0 = Expr(e, real=True)
        parts0 = remove_tensor(simplify(E0), 'd')
        blk, E = sorted(parts0.items(), key=lambda kv: str(kv[0]))[0]
        E = simplify(E)
        tgt = E.terms[0].target
        kw = {'target_indices': ''.join(s.name for s in tgt)}
        order_names = [s.name for s in tgt]
    order = [ir.mk_index(s) for s in order_names]
    model = tm.Model(2, 2, seed=case['mseed'], sym={'V': 1, 'f': 1},
                     alias={f't{n}cc': f't{n}' for n in range(1, 4)})
    ev = tm.Evaluator(model)
    ref = ev.value(E.sympy, order)
    parts = lib_call(sort.exploit_perm_sym, E, **kw)
    res.count('perm_sym_cases')
    tot = np.zeros_like(ref)
    nkeys = 0
    for key, part in parts.items():
        v = ev.value(tm.to_sympy(part), order)
        acc = v.copy()
        for perms, fac in key:
            nkeys += 1
            acc = (acc + fac * apply_perms(v, order, perms)) % model.p
        tot = (tot + acc) % model.p
    if nkeys:
        res.count('perm_keys_nonempty')
    res.nontrivial = nkeys > 0
    res.fingerprint = fp('real', case['name'])
    res.observed = {'terms_in': len(E), 'parts': {str(k): len(Expr(v)) for k, v
                                                  in parts.items()}}
    if not np.array_equal(tot, ref):
        res.violation(f'exploit_perm_sym on {case["name"]}: the parts do not '
                      f'reproduce the expression')


def _shape(terms):
    out = []
    for t in terms:
        out.append(sorted((o['t'], o.get('name', ''), len(o.get('up', [])),
                           len(o.get('lo', [])), o.get('exp', 1))
                          for o in t['objs']))
    return sorted(out)
