"""C16 - contraction schemes compute the term and respect their stated bounds.

Offline checker over the returned scheme (the 'event log' of contractions):
exactly-once use of operands and inner results, index conservation, limits, scaling
claims, and a step-by-step execution on TM arrays."""
import numpy as np

from ..common import fp, lib_call, rng_for, Refused
from .. import ir

LEVEL = 'exploration'
BATCH = 20
CASE_TIMEOUT = 240
RULE = ("generated terms with 1-6 (thorough 7) tensors/deltas: exponents, traces, "
        "outer products, disconnected groups, indices on 3+ objects "
        "(hyper-contractions), symbols and prefactors, all orders of the target "
        "string, spin-labelled targets, all limit settings incl. infeasible ones "
        "(documented RuntimeError = refusal); optimize_contractions and "
        "unoptimized_contraction schemes are audited (operands = the term's objects"
        " exactly once with multiplicity, every inner result consumed exactly once "
        "by a later step, every contracted index summed in exactly one step and "
        "absent afterwards, final target = requested order, limits, recomputed = "
        "reported scaling, max computational scaling <= single simultaneous "
        "contraction) and executed step by step on the tensor model. non-trivial: "
        ">= 2 steps; distinct by (object shapes, connectivity, target order, "
        "limits).")
ASSUMPTIONS = ["operands are matched to the term's objects by index tuple (the "
               "value of a product does not depend on which of two equally-indexed "
               "objects a step names)"]


def floors(tier):
    q = {'schemes_audited': 200, 'multi_step_schemes': 80, 'hyper_cases': 30,
         'limit_cases': 60, 'unoptimized_checked': 150, 'steps_executed': 400}
    if tier == 'thorough':
        q = {k: v * 5 for k, v in q.items()}
    return q


def gen_cases(tier, seed):
    from ..gen import ExprGen, CATALOGUE
    r = rng_for(seed, 'C16', tier)
    n = 420 if tier == 'quick' else 4200
    maxobj = 6 if tier == 'quick' else 7
    cases = []
    for k in range(n):
        spin = r.random() < 0.1
        g = ExprGen(r, CATALOGUE, spin=spin, general=r.choice([0, 0.1, 0.3]),
                    exponents=0.15, hyper=r.choice([0.0, 0.1, 0.4]),
                    symbols=0.1, max_pool=r.choice([3, 4, 6]))
        nobj = r.choice([1, 1, 2, 2, 3, 3, 4, 4, 5, maxobj])
        t = g.term(nobj=nobj)
        if t is None:
            continue
        if r.random() < 0.25:
            idxs = sorted(ir.term_indices(t))
            a = r.choice(idxs)
            same = [s for s in idxs if s != a and
                    ir.index_space(ir.split_index(s)[0]) ==
                    ir.index_space(ir.split_index(a)[0]) and
                    ir.split_index(s)[1] == ir.split_index(a)[1]]
            if same:
                t['objs'].append({'t': 'delta', 'up': [a, r.choice(same)]})
        tg = ir.term_targets(t)
        if spin and any(':' in s for s in tg) and not all(':' in s for s in tg):
            continue   # target_spin can not express mixed spin / no spin
        order = list(tg)
        declared = False
        if r.random() < 0.15:
            # an index that occurs on two (or more) objects is requested as a
            # target index (only possible with explicitly given targets)
            cnt_ = ir.term_indices(t)
            multi = [s_ for s_, n_ in cnt_.items() if n_ >= 2 and s_ not in tg]
            if multi and not (spin and any(':' in s_ for s_ in tg + multi)
                              and not all(':' in s_ for s_ in tg + multi)):
                order = order + r.sample(multi, r.randint(1, min(2, len(multi))))
                declared = True
        r.shuffle(order)
        kw = {}
        if r.random() < 0.35:
            kw['max_itmd_dim'] = r.randint(0, 6)
        if r.random() < 0.35:
            kw['max_n_simultaneous_contracted'] = r.randint(2, 4)
        pre = None
        if len(order) >= 2 and r.random() < 0.25:
            # an earlier call for the same term with another target order (or no
            # given targets) in the same process: results must not depend on it
            pre = list(order)
            while pre == order:
                r.shuffle(pre)
            if r.random() < 0.2:
                pre = []
        cases.append({'id': f'C16-{tier[0]}{seed}-{k:05d}', 'term': t,
                      'pre_order': pre,
                      'order': order,
                      'give_targets': declared or r.random() < 0.8,
                      'kw': kw, 'spin': spin, 'mseed': r.randrange(1 << 30),
                      'dims': [4, 4] if spin else list(r.choice([(2, 2), (2, 3),
                                                                 (3, 2)]))})
    # fixed cases of the mechanism of known finding F25 (an inner result that
    # carries all target indices of the term is exempt from max_itmd_dim)
    f25 = [
        ([{'t': 'amp', 'name': 't1', 'up': ['a', 'b'], 'lo': ['j', 'k']},
          {'t': 'anti', 'name': 'f', 'up': ['c'], 'lo': ['c'], 'bk': 0},
          {'t': 'anti', 'name': 'f', 'up': ['j'], 'lo': ['j'], 'bk': 0}],
         ['a', 'k', 'b'], {'max_itmd_dim': 0,
                           'max_n_simultaneous_contracted': 3}),
        ([{'t': 'anti', 'name': 'V', 'up': ['i', 'b'], 'lo': ['b', 'e'],
           'bk': 0},
          {'t': 'anti', 'name': 'd', 'up': ['a'], 'lo': ['a'], 'bk': 0},
          {'t': 'anti', 'name': 'f', 'up': ['l'], 'lo': ['l'], 'bk': 0,
           'exp': 2}],
         ['i', 'e'], {'max_itmd_dim': 1}),
    ]
    for k, (objs, order, kw) in enumerate(f25):
        cases.append({'id': f'C16-{tier[0]}{seed}-F25-{k}',
                      'term': {'pref': '1', 'objs': objs}, 'order': order,
                      'give_targets': True, 'kw': kw, 'spin': False,
                      'mseed': 77 + k, 'dims': [2, 3]})
    return cases


def term_objects(term):
    """[(base object, index tuple in the object's .idx order)] with exponent
    multiplicity; numbers and plain symbols skipped"""
    from sympy import Mul, Pow, Symbol
    out = []
    for f in (term.args if isinstance(term, Mul) else (term,)):
        if f.is_number:
            continue
        b, ex = (f.args if isinstance(f, Pow) else (f, 1))
        if isinstance(b, Symbol) and not hasattr(b, 'space'):
            continue
        for _ in range(int(ex)):
            out.append((b, tuple(b.idx)))
    return out


def audit_and_run(ev, term, scheme, tgt, kw, unoptimized=False):
    """-> (value array | None, problems, n_steps)"""
    from adcgen.generate_code.contraction import Contraction
    from collections import Counter
    probs = []
    model = ev.m
    pool = [[b, idx, False] for b, idx in term_objects(term)]
    results = {}
    all_contracted = Counter()
    term_cnt = Counter()
    for _, idx, _used in pool:
        for s in set(idx):
            term_cnt[s] += 1
    if not isinstance(scheme, list):
        return None, [f'returned {type(scheme).__name__} instead of a list'], 0
    last = None
    for k, c in enumerate(scheme):
        ops = []
        if len(c.names) != len(c.indices):
            probs.append(f'step {k}: {len(c.names)} names, '
                         f'{len(c.indices)} index tuples')
            return None, probs, k
        for name, indices in zip(c.names, c.indices):
            indices = tuple(indices)
            if Contraction.is_contraction(name):
                if name not in results:
                    probs.append(f'step {k} uses {name} that no earlier step '
                                 f'produced')
                    return None, probs, k
                entry = results[name]
                if entry[2]:
                    probs.append(f'{name} consumed twice')
                entry[2] = True
                if tuple(entry[1]) != indices:
                    probs.append(f'{name} used with indices {indices}, produced '
                                 f'with {tuple(entry[1])}')
                ops.append((entry[0], list(entry[1])))
            else:
                cand = [e for e in pool if not e[2] and e[1] == indices]
                if not cand:
                    probs.append(f'step {k}: operand {name}{indices} is not an '
                                 f'(unused) object of the term')
                    return None, probs, k
                pref = [e for e in cand
                        if name.startswith(getattr(e[0], 'name', 'd_')[:1])]
                e = (pref or cand)[0]
                e[2] = True
                a, i = ev.factor(e[0])
                ops.append((a, i))
        # index bookkeeping of the step
        step_idx = set()
        for _, i in ops:
            step_idx.update(i)
        for s in c.contracted:
            all_contracted[s] += 1
            if s in tgt:
                probs.append(f'step {k} sums the target index {s}')
            if s not in step_idx:
                probs.append(f'step {k} claims to contract {s} that is on none '
                             f'of its operands')
        if set(c.contracted) | set(c.target) != step_idx:
            probs.append(f'step {k}: contracted + target != indices of the '
                         f'operands')
        # an index that is summed must not be needed later
        later = set()
        for e in pool:
            if not e[2]:
                later.update(e[1])
        for nm, en in results.items():
            if not en[2]:
                later.update(en[1])
        for s in c.contracted:
            if s in later:
                probs.append(f'step {k} sums {s} although it still occurs on an '
                             f'unused operand')
        arr, idx = ev.contract(ops, list(c.target))
        if list(idx) != list(c.target):
            if set(idx) != set(c.target):
                probs.append(f'step {k}: target {c.target} holds indices that '
                             f'are not on the operands')
                return None, probs, k
            arr = ev.expand_to(arr, idx, list(c.target))
        results[c.contraction_name] = [arr, list(c.target), False]
        last = c
        # limits
        if not unoptimized:
            if 'max_n_simultaneous_contracted' in kw and \
                    len(c.names) > kw['max_n_simultaneous_contracted']:
                probs.append(f'step {k} contracts {len(c.names)} objects, limit '
                             f'{kw["max_n_simultaneous_contracted"]}')
            if 'max_itmd_dim' in kw and k < len(scheme) - 1 and \
                    len(c.target) > kw['max_itmd_dim']:
                full = ' that carries all target indices of the term' \
                    if tuple(c.target) == tuple(tgt) else ''
                probs.append(f'inner step {k} has a {len(c.target)}-dimensional '
                             f'result{full}, limit {kw["max_itmd_dim"]}')
        # scaling claims
        from collections import Counter as C2
        cs, ts = C2(s.space for s in c.contracted), C2(s.space for s in c.target)
        sc = c.scaling
        comp = {sp: cs[sp] + ts[sp] for sp in ('general', 'virt', 'occ')}
        if (sc.computational.total, sc.computational.general,
            sc.computational.virt, sc.computational.occ) != \
                (sum(comp.values()), comp['general'], comp['virt'], comp['occ']):
            probs.append(f'step {k}: reported computational scaling '
                         f'{sc.computational} != recomputed {comp}')
        if (sc.memory.total, sc.memory.general, sc.memory.virt, sc.memory.occ) \
                != (len(c.target), ts['general'], ts['virt'], ts['occ']):
            probs.append(f'step {k}: reported memory scaling {sc.memory} != '
                         f'recomputed from the target {c.target}')
    for e in pool:
        if not e[2]:
            probs.append(f'object {e[0]} of the term is never used')
    unused = [nm for nm, en in results.items()
              if not en[2] and nm != last.contraction_name]
    if unused:
        probs.append(f'inner results never consumed: {unused}')
    if results[last.contraction_name][2]:
        probs.append('the last contraction is consumed by another step')
    if tuple(last.target) != tuple(tgt):
        probs.append(f'final target {last.target} != requested {tuple(tgt)}')
    # every contracted index of the term summed exactly once
    for s, n in term_cnt.items():
        if s in tgt:
            continue
        if all_contracted[s] != 1:
            probs.append(f'contracted index {s} is summed {all_contracted[s]} '
                         f'times')
    return results[last.contraction_name][0], probs, len(scheme)


def run_case(case, res):
    from adcgen import Expr, optimize_contractions, unoptimized_contraction
    from sympy import S
    from .. import tm
    t = ir.mk_term(case['term'])
    if t is S.Zero or t.is_number:
        res.skip('zero term')
        return
    E = Expr(t)
    term = E.terms[0]
    tgt = [ir.mk_index(s) for s in case['order']]
    kw = dict(case['kw'])
    args = {}
    if case['give_targets'] and tgt:
        args['target_indices'] = ''.join(s.name for s in tgt)
        if any(s.spin for s in tgt):
            args['target_spin'] = ''.join(s.spin for s in tgt)
    else:
        tgt = list(term.target)
    n_o, n_v = case['dims']
    model = tm.Model(n_o, n_v, seed=case['mseed'], spin=case['spin'])
    ev = tm.Evaluator(model)
    pool = term_objects(t)
    cnt = {}
    for _, idx in pool:
        for s in set(idx):
            cnt[s] = cnt.get(s, 0) + 1
    hyper = any(n > 2 for n in cnt.values())
    res.fingerprint = fp(_shape(case['term']), len(case['order']),
                         sorted(kw.items()), hyper, case['give_targets'])
    ref = None
    if pool:
        from sympy import Mul
        stripped = Mul(*[b for b, _ in pool])
        ref = ev.value(stripped, tgt)
    # unoptimized ------------------------------------------------------------
    un = lib_call(unoptimized_contraction, term,
                  refusals=('NotImplementedError', 'Inputerror'), **args)
    un_comp = None
    if pool:
        res.count('unoptimized_checked')
        got, probs, _ = audit_and_run(ev, t, un, tgt, {}, unoptimized=True)
        if got is not None and not probs and \
                (got.shape != ref.shape or not np.array_equal(got, ref)):
            probs.append('VALUE MISMATCH')
        if probs:
            res.violation(f'unoptimized_contraction({t}, {args}): {probs[:3]}; '
                          f'scheme {un}')
            return
        un_comp = un[0].scaling.computational
    # optimized ----------------------------------------------------------------
    if case.get('pre_order') is not None and case['give_targets']:
        pre = [ir.mk_index(s_) for s_ in case['pre_order']]
        pargs = {}
        if pre:
            pargs['target_indices'] = ''.join(s_.name for s_ in pre)
            if any(s_.spin for s_ in pre):
                pargs['target_spin'] = ''.join(s_.spin for s_ in pre)
        try:
            lib_call(optimize_contractions, term,
                     refusals=('NotImplementedError', 'Inputerror',
                               'RuntimeError'), **pargs, **kw)
            res.count('repeated_calls')
        except Refused:
            pass
    try:
        scheme = lib_call(optimize_contractions, term,
                          refusals=('NotImplementedError', 'Inputerror',
                                    'RuntimeError'), **args, **kw)
    except Refused:
        res.count('refused')
        res.count('limit_cases' if kw else 'refused_other')
        res.observed = {'term': str(t), 'kw': kw, 'result': 'refused'}
        return
    if kw:
        res.count('limit_cases')
    if not pool:
        if scheme != []:
            res.violation(f'optimize_contractions of a term without tensors '
                          f'returned {scheme}')
        return
    got, probs, nsteps = audit_and_run(ev, t, scheme, tgt, kw)
    res.count('schemes_audited')
    res.count('steps_executed', nsteps)
    if nsteps >= 2:
        res.count('multi_step_schemes')
    if hyper:
        res.count('hyper_cases')
    res.nontrivial = nsteps >= 2
    res.observed = {'term': str(t), 'targets': case['order'], 'kw': kw,
                    'steps': [f'{c.names} {c.indices} -> {c.target}'
                              for c in scheme][:6]}
    if got is not None and not probs and \
            (got.shape != ref.shape or not np.array_equal(got, ref)):
        probs.append('step-by-step execution does not give the value of the term')
    if not probs and un_comp is not None:
        worst = max(c.scaling.computational for c in scheme)
        if worst > un_comp:
            probs.append(f'maximal computational scaling {worst} is worse than '
                         f'the single simultaneous contraction {un_comp}')
    if probs:
        # known finding F25: the library exempts every contraction whose result
        # has the target indices of the term from max_itmd_dim, not only the last
        tags = ['inner_result_carries_term_target'] \
            if all(q.startswith('inner step') and 'carries all target' in q
                   for q in probs) else []
        res.violation(f'optimize_contractions({t}, {args}, {kw}): {probs[:3]}; '
                      f'scheme {scheme}', tags)


def _shape(t):
    names = {}
    out = []
    for o in t['objs']:
        lab = []
        for s in ir.obj_index_list(o):
            names.setdefault(s, len(names))
            lab.append(names[s])
        out.append((o['t'], tuple(lab), o.get('exp', 1)))
    return sorted(map(str, out))
