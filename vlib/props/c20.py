"""C20 - unitary-tensor simplification preserves the value for orthogonal tensors.

Model: the tensor U is a block-diagonal orthogonal matrix over F_p (Cayley transform
(1-K)(1+K)^-1 of random skew-symmetric K on the occupied and on the virtual space), so
U U^T = U^T U = 1 on each space and on the full space."""
import numpy as np

from ..common import fp, lib_call, rng_for
from .. import ir

LEVEL = 'exploration'
BATCH = 40
CASE_TIMEOUT = 200
RULE = ("generated products of 2-6 tensors U (powers <= 3, as NonSymmetricTensor "
        "or rank-(1,1) AntiSymmetricTensor), first/second-slot contractions, shared"
        " index also on a third tensor / in a denominator / in the target set, "
        "remainder tensors, 1-2 terms, explicit or Einstein targets, "
        "evaluate_deltas on/off; value compared on every target assignment with U "
        "a Cayley-orthogonal matrix over F_p. non-trivial: the result differs from "
        "the input (a pair was replaced); distinct by (U index pattern, remainder "
        "shape, target mode, flag).")
ASSUMPTIONS = ["orthogonal (real unitary) U; F_p image of Q"]


def floors(tier):
    q = {'direct_calls': 250, 'replaced_cases': 100, 'points_compared': 1500,
         'untouched_shared_cases': 30}
    if tier == 'thorough':
        q = {k: v * 5 for k, v in q.items()}
    return q


def gen_cases(tier, seed):
    r = rng_for(seed, 'C20', tier)
    n = 600 if tier == 'quick' else 6000
    cases = []
    for k in range(n):
        space = r.choice(['occ', 'virt', 'general'])
        pools = {'occ': ['i', 'j', 'k', 'l', 'm'], 'virt': ['a', 'b', 'c', 'd',
                                                           'e'],
                 'general': ['p', 'q', 'r', 's', 't']}
        # the unitary tensor's indices lie in ONE space (premise of the property)
        pool = pools[space][:r.randint(3, 5)]
        kind = r.choice(['non', 'non', 'anti'])
        mode = r.choice(['einstein', 'einstein', 'explicit'])
        # Einstein convention: one term (the target set is a property of the term)
        nterms = r.choice([1, 1, 2]) if mode == 'explicit' else 1
        terms = []
        for _ in range(nterms):
            nu = r.randint(2, 4 if tier == 'quick' else 6)
            objs = []
            allp = pools[space]
            # structured pairs U_xa U_xb / U_ax U_bx sharing an index x that is (70%)
            # contracted and nowhere else, (30%) also on a third object
            for _ in range(r.choice([0, 1, 1, 2])):
                x = r.choice([s for s in allp if s not in pool] or allp)
                a, b = r.choice(pool), r.choice(pool)
                first = r.random() < 0.5
                for y in (a, b):
                    up = [x, y] if first else [y, x]
                    o = {'t': kind, 'name': 'U', 'up': up}
                    if kind == 'anti':
                        o = {'t': 'anti', 'name': 'U', 'up': up[:1],
                             'lo': up[1:], 'bk': 0}
                    objs.append(o)
                if r.random() < 0.3:
                    objs.append({'t': 'non', 'name': 'x', 'up': [x]})
            for _ in range(nu):
                a, b = r.choice(pool), r.choice(pool)
                o = {'t': kind, 'name': 'U', 'up': [a, b]}
                if kind == 'anti':
                    o = {'t': 'anti', 'name': 'U', 'up': [a], 'lo': [b], 'bk': 0}
                x_ = r.random()
                if x_ < 0.2:
                    o['exp'] = r.choice([2, 2, 3])
                elif x_ < 0.27:
                    # an inverse power is no factor U that could be paired
                    o['exp'] = r.choice([-1, -1, -2])
                objs.append(o)
            # remainder
            for _ in range(r.choice([0, 0, 1, 1, 2])):
                x = r.random()
                if x < 0.6:
                    nidx = r.randint(1, 3)
                    objs.append({'t': 'non', 'name': r.choice(['x', 'y']),
                                 'up': [r.choice(pool) for _ in range(nidx)]})
                elif x < 0.8:
                    nb = r.randint(1, 2)
                    objs.append({'t': 'br', 'e': [[r.choice(['1', '-1', '2']),
                                                   r.choice(pool)]
                                                  for _ in range(nb)],
                                 'exp': r.choice([-1, -2, 1])})
                else:
                    objs.append({'t': 'sym', 'name': 'w', 'up': [r.choice(pool)],
                                 'lo': [r.choice(pool)], 'bk': 0})
            terms.append({'pref': r.choice(['1', '-1', '2', '1/2', 'sqrt(2)']),
                          'objs': objs})
        explicit = None
        if mode == 'explicit':
            explicit = r.sample(pool, r.randint(0, 3))
        if r.random() < 0.16:
            # two resolvable pairs, every remaining index also on a remainder
            # tensor, and explicitly given targets that occur twice (a delta
            # between two of them must survive the delta evaluation)
            allp = pools[space]
            x, y, a, b = r.sample(allp, 4)
            c = r.choice([s_ for s_ in allp if s_ not in (x, y)])
            d = r.choice([s_ for s_ in allp if s_ not in (x, y)])
            first = r.random() < 0.5
            objs = []
            for sh, rest in ((x, (a, b)), (y, (c, d))):
                for z in rest:
                    up = [sh, z] if first else [z, sh]
                    o = {'t': kind, 'name': 'U', 'up': up}
                    if kind == 'anti':
                        o = {'t': 'anti', 'name': 'U', 'up': up[:1],
                             'lo': up[1:], 'bk': 0}
                    objs.append(o)
            objs.append({'t': 'non', 'name': 'x', 'up': [a, b]})
            objs.append({'t': 'non', 'name': 'y', 'up': [c, d]})
            terms = [{'pref': r.choice(['1', '-1', '1/2']), 'objs': objs}]
            mode = 'explicit'
            explicit = r.choice([[c, d], [a, b], [c, d], [a, b], [a],
                                 [c, d, a], [], [x], [x, a], [y, c, d]])
            explicit = list(dict.fromkeys(explicit))
            forced_pre = 'einstein' if x in explicit or y in explicit else None
        if r.random() < 0.04:
            # U_xa / U_xb: an inverse power is no second factor of a pair
            allp = pools[space]
            x, a, b = r.sample(allp, 3)
            first = r.random() < 0.5
            objs = []
            for z, ex in ((a, 1), (b, -r.choice([1, 1, 2]))):
                up = [x, z] if first else [z, x]
                o = {'t': kind, 'name': 'U', 'up': up}
                if kind == 'anti':
                    o = {'t': 'anti', 'name': 'U', 'up': up[:1], 'lo': up[1:],
                         'bk': 0}
                if ex != 1:
                    o['exp'] = ex
                objs.append(o)
            objs.append({'t': 'non', 'name': 'x', 'up': [a, b]})
            terms = [{'pref': r.choice(['1', '-1', '1/2']), 'objs': objs}]
            mode, explicit = 'einstein', None
        if r.random() < 0.06:
            # a resolvable pair (or power) whose only other object is a bracket
            # (sum) with exponent 1: after the replacement the product is a sum of
            # several terms
            allp = pools[space]
            x, a, b = r.sample(allp, 3)
            if r.random() < 0.5:
                b = a
            first = r.random() < 0.5
            objs = []
            if a == b and r.random() < 0.6:
                up = [x, a] if first else [a, x]
                o = {'t': kind, 'name': 'U', 'up': up, 'exp': 2}
                if kind == 'anti':
                    o = {'t': 'anti', 'name': 'U', 'up': up[:1], 'lo': up[1:],
                         'bk': 0, 'exp': 2}
                objs.append(o)
            else:
                for z in (a, b):
                    up = [x, z] if first else [z, x]
                    o = {'t': kind, 'name': 'U', 'up': up}
                    if kind == 'anti':
                        o = {'t': 'anti', 'name': 'U', 'up': up[:1],
                             'lo': up[1:], 'bk': 0}
                    objs.append(o)
            objs.append({'t': 'br', 'e': [[r.choice(['1', '2', '-1']), a],
                                          [r.choice(['1', '3']), b]] if a != b
                         else [['1', a], ['2', r.choice([s_ for s_ in allp
                                                         if s_ not in (x, a)])]],
                         'exp': 1})
            terms = [{'pref': r.choice(['1', '-1', '1/2']), 'objs': objs}]
            mode, explicit = 'einstein', None
        if r.random() < 0.05:
            # squares (or pairs with equal partner index) that reduce to 1 with an
            # explicit target on the partner index, times a bracket whose addends
            # all carry that target: after the replacement the bracket is the only
            # object left and the product is a sum of several terms
            allp = pools[space]
            nsq = r.choice([1, 1, 2])
            xs = r.sample(allp, 2 * nsq)
            first = r.random() < 0.5
            objs, tgs = [], []
            for q_ in range(nsq):
                x, a = xs[2 * q_], xs[2 * q_ + 1]
                tgs.append(a)
                up = [x, a] if first else [a, x]
                if r.random() < 0.6:
                    o = {'t': kind, 'name': 'U', 'up': up, 'exp': 2}
                    if kind == 'anti':
                        o = {'t': 'anti', 'name': 'U', 'up': up[:1],
                             'lo': up[1:], 'bk': 0, 'exp': 2}
                    objs.append(o)
                else:
                    for _z in range(2):
                        o = {'t': kind, 'name': 'U', 'up': up}
                        if kind == 'anti':
                            o = {'t': 'anti', 'name': 'U', 'up': up[:1],
                                 'lo': up[1:], 'bk': 0}
                        objs.append(o)
            if nsq == 2:
                objs.append({'t': 'non', 'name': 'x', 'up': [tgs[1]]})
            ent = [[r.choice(['1', '2', '-1']), tgs[0], 'v'],
                   [r.choice(['1', '3', '-2']), tgs[0], 'w']]
            if r.random() < 0.4:
                ent.append([r.choice(['1', '5']), tgs[0], 'z'])
            br_ = {'t': 'br', 'e': ent, 'exp': 1}
            if nsq == 2 and r.random() < 0.5:
                objs.insert(0, br_)
            else:
                objs.append(br_)
            terms = [{'pref': r.choice(['1', '-1', '1/2']), 'objs': objs}]
            mode, explicit = 'explicit', list(tgs)
        if r.random() < 0.08:
            # closed ring  U_{x0 y0} U_{x1 y0} U_{x1 y1} U_{x2 y1} ... : every
            # index is contracted and occurs on U only; the value is the trace of
            # the unit matrix. Deltas of such a ring have no index elsewhere.
            m = r.randint(1, 2)
            xs = r.sample(pools[space], 2 * m) if 2 * m <= 5 else pools[space][:4]
            ring = []
            for q in range(m):
                x0, y0 = xs[2 * q], xs[2 * q + 1]
                x1 = xs[(2 * q + 2) % (2 * m)]
                ring.append([x0, y0])
                ring.append([x1, y0])
            objs = []
            for up in ring:
                if r.random() < 0.5:
                    up = up[::-1] if m == 1 else up
                o = {'t': kind, 'name': 'U', 'up': list(up)}
                if kind == 'anti':
                    o = {'t': 'anti', 'name': 'U', 'up': up[:1], 'lo': up[1:],
                         'bk': 0}
                objs.append(o)
            if r.random() < 0.4:
                objs.append({'t': 'non', 'name': 'x',
                             'up': [r.choice(pool)]})
            terms = [{'pref': r.choice(['1', '-1', '1/2']), 'objs': objs}]
            mode, explicit = 'explicit', []
        pre = None
        if locals().get('forced_pre') and r.random() < 0.7:
            pre = forced_pre
        forced_pre = None
        if pre is None and r.random() < 0.25:
            # an earlier call on the same product with other target indices in the
            # same process (results must not depend on it)
            allidx = sorted({s_ for t_ in terms for o_ in t_['objs']
                             for s_ in ir.obj_index_list(o_)})
            pre = r.choice(['einstein', [], allidx,
                            r.sample(allidx, min(len(allidx), 2))])
        if k == 0:
            # fixed exhibit of the open finding F34
            cases.append({'id': f'C20-{tier[0]}{seed}-F34-exhibit',
                          'terms': [{'pref': '1/2', 'objs': [
                              {'t': 'non', 'name': 'U', 'up': ['c', 'e']},
                              {'t': 'non', 'name': 'U', 'up': ['a', 'e']},
                              {'t': 'non', 'name': 'U', 'up': ['b', 'a'],
                               'exp': -1},
                              {'t': 'non', 'name': 'U', 'up': ['b', 'c']},
                              {'t': 'non', 'name': 'U', 'up': ['b', 'b']}]}],
                          'pre_targets': None, 'explicit': None, 'flag': True,
                          'dims': [3, 3], 'mseed': 624194427})
        cases.append({'id': f'C20-{tier[0]}{seed}-{k:05d}', 'terms': terms,
                      'pre_targets': pre,
                      'explicit': explicit, 'flag': r.random() < 0.5,
                      'dims': list(r.choice([(2, 2), (3, 3), (3, 2), (2, 3)])),
                      'mseed': r.randrange(1 << 30)})
    return cases


def inv_mod_matrix(A, p):
    n = len(A)
    M = [[int(A[i][j]) % p for j in range(n)]
         + [1 if i == j else 0 for j in range(n)] for i in range(n)]
    for c in range(n):
        piv = next((r_ for r_ in range(c, n) if M[r_][c]), None)
        if piv is None:
            raise ZeroDivisionError
        M[c], M[piv] = M[piv], M[c]
        inv = pow(M[c][c], p - 2, p)
        M[c] = [x * inv % p for x in M[c]]
        for r_ in range(n):
            if r_ != c and M[r_][c]:
                f = M[r_][c]
                M[r_] = [(x - f * y) % p for x, y in zip(M[r_], M[c])]
    return np.array([row[n:] for row in M], dtype=np.int64)


def cayley(n, p, rng):
    while True:
        K = np.zeros((n, n), dtype=np.int64)
        for i in range(n):
            for j in range(i + 1, n):
                K[i, j] = rng.randrange(p)
                K[j, i] = (-K[i, j]) % p
        one = np.eye(n, dtype=np.int64)
        try:
            inv = inv_mod_matrix((one + K) % p, p)
        except ZeroDivisionError:
            continue
        Q = np.zeros((n, n), dtype=object)
        A = ((one - K) % p).astype(object)
        Q = A.dot(inv.astype(object)) % p
        Q = Q.astype(np.int64)
        chk = (Q.astype(object).dot(Q.T.astype(object)) % p).astype(np.int64)
        assert np.array_equal(chk, one), "Cayley transform not orthogonal"
        return Q


def orthogonal_model(n_o, n_v, mseed, p=None):
    from .. import tm
    p = p or tm.PRIMES[0]
    rng = rng_for(mseed, 'cayley', p)
    N = n_o + n_v
    U = np.zeros((N, N), dtype=np.int64)
    U[:n_o, :n_o] = cayley(n_o, p, rng)
    U[n_o:, n_o:] = cayley(n_v, p, rng)
    ex = {('U', 2, 0): U, ('U', 1, 1): U}
    return tm.Model(n_o, n_v, seed=mseed, p=p, explicit=ex)


def run_case(case, res):
    from adcgen import Expr, simplify_unitary
    from .. import tm
    e = ir.mk_expr(case['terms'])
    if e == 0:
        res.skip('zero input')
        return
    kw = {}
    if case['explicit'] is not None:
        kw['target_idx'] = [ir.mk_index(s) for s in case['explicit']]
    E = Expr(e, **kw)
    n_o, n_v = case['dims']
    model = orthogonal_model(n_o, n_v, case['mseed'])
    ev = tm.Evaluator(model)
    if case.get('pre_targets') is not None:
        pkw = {} if case['pre_targets'] == 'einstein' else \
            {'target_idx': [ir.mk_index(s_) for s_ in case['pre_targets']]}
        try:
            lib_call(simplify_unitary, Expr(e, **pkw), 'U', case['flag'])
            res.count('repeated_calls')
        except Exception:
            pass
    R = lib_call(simplify_unitary, E, 'U', case['flag'])
    res.count('direct_calls')

    # which indices are targets is a property of the *input*: given explicitly or
    # by the summation convention applied to the input term; the result is
    # evaluated with the same target set (an index occurring three times, e.g.
    # U_ij U_ij U_ik, stays summed when the pair U_ij U_ij is replaced)
    if case['explicit'] is not None:
        tg = [ir.mk_index(s) for s in case['explicit']]
    else:
        tg = tm.einstein_targets(E.sympy)

    # a contracted index is summed once over the whole *term*; a bracket is one
    # object of the term (adcgen's Term/Polynom reading). Expanding first would
    # give an index that survives in one addend of a bracket only another range.
    def val(ev_, x):
        return tg, ev_.value_outer(x.sympy, tg)
    try:
        u0, v0 = val(ev, E)
        if not np.array_equal(v0, ev.value(E.sympy, tg)):
            # the two readings of a bracket (sum outside / expand first) differ
            # on the input itself: its value is not defined without a convention
            res.count('ambiguous_bracket_inputs')
            res.skip('input value depends on the reading of a bracket')
            return
        u1, v1 = val(ev, R)
    except tm.ModelUnusable:
        res.count('model_retry')
        res.skip('denominator vanished mod p')
        return
    union = sorted(set(u0) | set(u1), key=tm.idx_key)
    a0, a1 = ev.expand_to(v0, u0, union), ev.expand_to(v1, u1, union)
    res.count('points_compared', int(a0.size))
    changed = R.sympy != E.sympy
    res.nontrivial = changed
    if changed:
        res.count('replaced_cases')
    # a pair sharing an index that is also elsewhere / a target: count them
    for t in case['terms']:
        cnt = ir.term_indices(t)
        us = [o for o in t['objs'] if o.get('name') == 'U']
        if any(cnt[s] > 2 for o in us for s in ir.obj_index_list(o)):
            res.count('untouched_shared_cases')
            break
    res.fingerprint = fp([[sorted(_pattern(t))] for t in case['terms']],
                         case['explicit'] is not None, case['flag'])
    res.observed = {'input': str(E)[:300], 'output': str(R)[:300],
                    'targets': [str(s) for s in union]}
    if not np.array_equal(a0, a1):
        m2 = orthogonal_model(n_o, n_v, case['mseed'], p=tm.PRIMES[1])
        e2 = tm.Evaluator(m2)
        try:
            w0, x0 = val(e2, E)
            w1, x1 = val(e2, R)
            un2 = sorted(set(w0) | set(w1), key=tm.idx_key)
            same = np.array_equal(e2.expand_to(x0, w0, un2),
                                  e2.expand_to(x1, w1, un2))
        except tm.ModelUnusable:
            same = False
        if not same:
            res.violation(
                f'simplify_unitary({E}, "U", evaluate_deltas={case["flag"]}) = '
                f'{R} changes the value for an orthogonal U (targets '
                f'{[str(s) for s in union]}, explicit={case["explicit"]})',
                _tags(case))


def _pattern(t):
    """index pattern with names canonically relabelled"""
    names = {}
    out = []
    for o in t['objs']:
        lab = []
        for s in ir.obj_index_list(o):
            names.setdefault(s, len(names))
            lab.append(names[s])
        out.append((o['t'], o.get('name', ''), tuple(lab), o.get('exp', 1)))
    return [str(x) for x in out]


def _tags(case):
    # F34 (open): with evaluate_deltas=True a substitution can make U_xy / U_xy
    # cancel, the summed index vanishes from the term and its sum is lost
    if case['flag'] and any(o.get('name') == 'U' and o.get('exp', 1) < 0
                            for t in case['terms'] for o in t['objs']):
        return ['inverse_power_with_delta_evaluation']
    return []
