"""C02 - ground-state perturbation theory agrees with explicit determinant-space RSPT.

The library's derived energies / amplitudes / residuals / expectation values are
evaluated in a tensor model whose f, V, e are a model Hamiltonian and whose t-amplitude
tensors are the coefficients of the *explicitly* computed perturbed wavefunctions
(linear algebra on determinants, vlib.fock.RSPT), and compared with the numbers RSPT
itself gives.
"""
import itertools
import math

import numpy as np

from ..common import fp, lib_call, rng_for

LEVEL = 'exploration'
BATCH = 1
CASE_TIMEOUT = 1500
RULE = ("requests (variant mp/re, first-order singles on/off, quantity energy / "
        "amplitude or residual per excitation class / k-particle expectation value,"
        " order, index names, fresh or warmed-up GroundState) x model spaces; each "
        "compared on every target index assignment with explicit RSPT in the "
        "determinant basis. non-trivial: the reference array has a non-zero entry "
        "(residuals: the residual reacts to perturbed amplitudes); distinct by "
        "(variant, singles, quantity, order, class/rank, model dims).")
ASSUMPTIONS = [
    "real model Hamiltonians (bra-ket symmetric f, V); tNcc = tN",
    "F_p image of rational arithmetic; orbital-energy denominators non-zero mod p "
    "(model re-drawn otherwise)",
]

SPACES = {1: 'ph', 2: 'pphh', 3: 'ppphhh', 4: 'pppphhhh'}
OCC = ['i', 'j', 'k', 'l', 'm', 'n', 'i1', 'j2', 'o', 'k7']
VIRT = ['a', 'b', 'c', 'd', 'e', 'f', 'a1', 'b2', 'g', 'c7']


def floors(tier):
    return {'energy_compared': 6, 'amplitude_points': 100,
            'expectation_compared': 3, 'residual_sensitive': 2,
            'norm_compared': 8,
            'nonzero_reference_points': 50}


def gen_cases(tier, seed):
    r = rng_for(seed, 'C02', tier)
    cases = []
    n = 0

    def add(cost=10, **kw):
        nonlocal n
        kw['id'] = f"C02-{tier[0]}{seed}-{n:03d}-{kw['variant']}-" \
                   f"{'s' if kw['singles'] else 'n'}-{kw['q']}{kw['order']}" \
                   f"{'-' + str(kw.get('k', '')) if kw.get('k') else ''}"
        kw['mseed'] = r.randrange(1 << 30)
        kw['cost'] = cost
        kw['warm'] = r.random() < 0.5
        kw['hseed'] = r.randrange(1 << 30)
        cases.append(kw)
        n += 1
    dims_q = [(2, 2), (3, 3), (2, 3), (3, 2)]
    for variant in ('mp', 're'):
        for singles in (False, True):
            for order in range(0, 4):
                add(variant=variant, singles=singles, q='energy', order=order,
                    dims=r.choice(dims_q), cost=3 + 10 * order)
            # amplitudes / residuals
            for order, k in [(1, 1), (1, 2), (2, 1), (2, 2), (2, 3)]:
                if order == 1 and k == 1 and not singles:
                    continue
                dims = (3, 3) if k == 3 else r.choice([(2, 2), (3, 3), (2, 3)])
                if variant == 're' and k == 3 and singles:
                    continue  # 150 s derivation each: with singles only in the
                    #           thorough tier
                add(variant=variant, singles=singles, q='amp', order=order, k=k,
                    dims=dims, cost=20 * order * k)
            if variant == 'mp':
                add(variant=variant, singles=singles, q='amp', order=3, k=1,
                    dims=(2, 2), cost=60)
            for order in range(0, 3):
                add(variant=variant, singles=singles, q='ev', order=order, k=1,
                    dims=r.choice([(2, 2), (3, 3)]), cost=10 + 20 * order)
        add(variant=variant, singles=False, q='ev', order=2, k=2, dims=(2, 2),
            cost=60)
        # two-particle operator at the odd orders (first-order doubles couple
        # to the reference through a two-particle operator)
        add(variant=variant, singles=False, q='ev', order=1, k=2, dims=(2, 2),
            cost=20)
        add(variant=variant, singles=True, q='ev', order=1, k=2, dims=(2, 2),
            cost=20)
        add(variant=variant, singles=False, q='ev', order=3, k=2, dims=(2, 2),
            cost=150)
        # norm factor / overlap series incl. the orders where a factor occurs twice
        for singles in (False, True):
            for order in range(2, 6):
                add(variant=variant, singles=singles, q='norm', order=order,
                    dims=r.choice([(2, 2), (3, 3)]), cost=5 * order)
            for order in range(2, 5):
                add(variant=variant, singles=singles, q='overlap', order=order,
                    dims=r.choice([(2, 2), (3, 3)]), cost=5 * order)
            add(variant=variant, singles=singles, q='ev', order=3, k=1,
                dims=r.choice([(2, 2), (3, 3)]), cost=40)
            if variant == 're':
                add(variant=variant, singles=singles, q='amp', order=3, k=1,
                    dims=(3, 3), cost=40)
                add(variant=variant, singles=singles, q='amp', order=3, k=2,
                    dims=(2, 2), cost=90)
        add(variant=variant, singles=False, q='ev', order=4, k=1, dims=(2, 2),
            cost=120)
        # the Taylor series of the norm factor as a series in symbolic overlaps
        # (orders the explicit comparison above can not afford: cubic and higher
        # powers of S^(k) first occur at order 6 for min_order 2)
        for singles in (False, True):
            for order in ((6, 7, 8, 9) if tier == 'quick' else range(0, 13)):
                add(variant=variant, singles=singles, q='normseries', order=order,
                    dims=(2, 2), cost=3)
    if tier == 'thorough':
        for variant in ('mp', 're'):
            for singles in (False, True):
                add(variant=variant, singles=singles, q='energy', order=4,
                    dims=(3, 3), cost=300, timeout=3000)
                add(variant=variant, singles=singles, q='amp', order=3, k=2,
                    dims=(3, 3), cost=200, timeout=3000)
                add(variant=variant, singles=singles, q='amp', order=2, k=4,
                    dims=(4, 4), cost=300 if variant == 'mp' else 5,
                    timeout=3000)
                add(variant=variant, singles=singles, q='amp', order=2, k=3,
                    dims=(3, 3), cost=400, timeout=3000)
                add(variant=variant, singles=singles, q='ev', order=3, k=1,
                    dims=(3, 3), cost=200, timeout=3000)
            add(variant=variant, singles=False, q='amp', order=3, k=3,
                dims=(3, 3), cost=500, timeout=3000)
            add(variant=variant, singles=False, q='ev', order=2, k=2,
                dims=(3, 3), cost=200, timeout=3000)
            add(variant=variant, singles=False, q='amp', order=2, k=2,
                dims=(4, 4), cost=100, timeout=3000)
        # re order-2 quadruples residual is out of bounds (> 25 min); drop it
        cases[:] = [c for c in cases if not (c['variant'] == 're' and
                                             c['q'] == 'amp' and c.get('k') == 4)]
    return cases


def _warm_up(gs, r, case):
    """fill member caches / advance the generic-index counters in random order"""
    todo = [lambda: gs.energy(1), lambda: gs.energy(2),
            lambda: gs.amplitude(1, 'pphh', 'klcd'),
            lambda: gs.psi(1, 'ket'), lambda: gs.norm_factor(2),
            lambda: gs.overlap(2)]
    r.shuffle(todo)
    for f in todo[:r.randint(1, 4)]:
        f()


def _compositions(order, length, min_order):
    """all ordered tuples of `length` integers >= min_order that sum to `order`
    (written independently of adcgen.func.gen_term_orders: recursion on the first
    entry)"""
    if length == 0:
        return [()] if order == 0 else []
    out = []
    for first in range(min_order, order + 1):
        for rest in _compositions(order - first, length - 1, min_order):
            out.append((first,) + rest)
    return out


def _inverse_series(order, min_order):
    """coefficient of lambda^order of 1/(1 + sum_{k>=min_order} lambda^k s_k) as
    {sorted tuple of k's: integer coefficient}, by the recursion
    c_n = - sum_k s_k c_{n-k}, c_0 = 1."""
    c = [{(): 1}]
    for n in range(1, order + 1):
        cur = {}
        for k in range(min_order, n + 1):
            for mono, v in c[n - k].items():
                m = tuple(sorted(mono + (k,)))
                cur[m] = cur.get(m, 0) - v
        c.append({m: v for m, v in cur.items() if v})
    return c[order]


def _run_normseries(case, res):
    """expand_norm_factor / norm_factor as a series in symbolic overlaps S^(k),
    and every gen_term_orders call observed on the way, against an independently
    written inverse power series / enumeration of compositions."""
    from adcgen import GroundState, Operators
    from adcgen import func as afunc
    from sympy import Symbol, Add, Mul, Pow, Integer, expand
    from .. import monitor
    variant, singles, order = case['variant'], case['singles'], case['order']
    res.fingerprint = fp(variant, singles, 'normseries', order)
    gs = GroundState(Operators(variant), singles)
    seen = []

    def term_orders_recorded(order, term_length, min_order, result):
        seen.append((order, term_length, min_order, list(result)))
        return True
    undo = monitor.rebind(afunc, 'gen_term_orders', monitor.ensure(
        term_orders_recorded)(afunc.gen_term_orders))
    try:
        # direct grid of gen_term_orders requests (properties / secular matrix /
        # intermediate states use lengths 2-3 with min_order 0)
        for length in range(0, 5):
            for mo in range(0, 4):
                lib_call(afunc.gen_term_orders, order=min(order, 8),
                         term_length=length, min_order=mo)
        for mo in (1, 2, 3):
            # the library enumerates (order - min_order + 1)^length tuples: bound
            # the request for min_order 1 (length up to `order`)
            o_req = min(order, 6) if mo == 1 else order
            exp = _inverse_series(o_req, mo) if o_req >= mo else {(o_req,): 1}
            ret = lib_call(gs.expand_norm_factor, o_req, mo)
            got = {}
            for pref, orders in ret:
                for t in orders:
                    m = tuple(sorted(t))
                    got[m] = got.get(m, 0) + pref
            got = {m: v for m, v in got.items() if v != 0}
            res.count('norm_series_compared')
            res.count('points_compared', len(exp))
            if {m: int(v) for m, v in got.items()} != exp or \
                    any(v != int(v) for v in got.values()):
                miss = sorted(set(exp) - set(got))[:3]
                res.violation(f'expand_norm_factor({o_req}, min_order={mo}) is not '
                              f'the order-{o_req} coefficient of 1/(1 + sum_k '
                              f'lambda^k S^(k)): monomials missing {miss}, '
                              f'library {sorted(got.items())[:6]} vs series '
                              f'{sorted(exp.items())[:6]}')
                return
        # norm_factor on symbolic overlaps (the overlap member replaced on this
        # instance only): must be the same series with min_order 2
        gs.overlap = lambda o: Integer(1) if o == 0 else \
            (Integer(0) if o == 1 else Symbol(f's{o}'))
        nf = expand(lib_call(gs.norm_factor, order))
        exp = _inverse_series(order, 2) if order >= 2 else \
            ({(): 1} if order == 0 else {})
        ref = Add(*[v * Mul(*[Symbol(f's{k}') for k in m])
                    for m, v in exp.items()])
        res.count('norm_compared')
        res.count('nonzero_reference_points', int(bool(exp)))
        res.nontrivial = bool(exp)
        if expand(nf - ref) != 0:
            res.violation(f'norm_factor({order}) on symbolic overlaps = {nf} != '
                          f'inverse series coefficient {expand(ref)}')
            return
    finally:
        undo()
    res.count('gen_term_orders_calls', len(seen))
    for o, length, mo, result in seen:
        exp = sorted(_compositions(o, length, mo))
        if sorted(tuple(t) for t in result) != exp:
            res.violation(f'gen_term_orders(order={o}, term_length={length}, '
                          f'min_order={mo}) = {sorted(result)[:8]} != all '
                          f'compositions {exp[:8]} ({len(result)} vs {len(exp)})')
            return
    res.observed = {'order': order, 'gen_term_orders_calls': len(seen),
                    'series_monomials_min2': len(_inverse_series(order, 2))
                    if order >= 2 else 0}


def run_case(case, res):
    from adcgen import GroundState, Operators, get_symbols
    from .. import tm, gsref
    variant, singles, order = case['variant'], case['singles'], case['order']
    n_o, n_v = case['dims']
    if case['q'] == 'normseries':
        return _run_normseries(case, res)
    r = rng_for(case['hseed'], 'hist')
    need = max(order, 1)
    ref = None
    mseed = case['mseed']
    for attempt in range(5):
        try:
            ref = gsref.GSRef(variant, singles, n_o, n_v, mseed, need)
            break
        except (ZeroDivisionError, tm.ModelUnusable):
            res.count('model_retry')
            mseed += 1
    if ref is None:
        res.skip('no usable model')
        return
    gs = GroundState(Operators(variant), singles)
    if case['warm']:
        lib_call(_warm_up, gs, r, case)
        res.count('warmed_up')
    q = case['q']
    p = ref.p
    res.fingerprint = fp(variant, singles, q, order, case.get('k'), case['dims'])
    if q == 'energy':
        expr = lib_call(gs.energy, order)
        val = int(ref.ev.value(expr, []))
        exp = ref.rspt.E[order] % p
        res.count('energy_compared')
        res.count('points_compared')
        res.nontrivial = exp != 0
        res.count('nonzero_reference_points', int(exp != 0))
        res.observed = {'terms': _nterms(expr), 'library': val, 'explicit': exp}
        if val != exp:
            if _confirm(case, ref, gs, mseed):
                res.violation(f'{variant} energy({order}) [singles={singles}] = '
                              f'{val} != explicit RSPT E({order}) = {exp} (mod {p})'
                              f' on model {case["dims"]} seed {mseed}')
        return
    if q == 'amp':
        k = case['k']
        names = (r.sample(OCC, k), r.sample(VIRT, k))
        mixed = list(names[0]) + list(names[1])
        if r.random() < 0.4:
            r.shuffle(mixed)
        idx_str = ''.join(mixed)
        occ = [s for s in mixed if s[0] in 'ijklmno']
        virt = [s for s in mixed if s[0] in 'abcdefgh']
        tgt = get_symbols(occ + virt)
        expr = lib_call(gs.amplitude, order, SPACES[k], idx_str)
        val = ref.ev.value(expr, tgt)
        res.count('amplitude_points', int(val.size))
        res.count('points_compared', int(val.size))
        if variant == 'mp':
            exp = ref.amp_block(order, k) % p
            if singles and order == 1 and k == 1:
                # the first-order singles of the model are free parameters
                # (first_order_singles=True keeps t1 singles as a tensor); the
                # *formula* amplitude(1, 'ph') is their HF value: zero
                exp = np.zeros_like(exp)
            nz = int(np.count_nonzero(exp))
            res.nontrivial = nz > 0
            res.count('nonzero_reference_points', nz)
            res.observed = {'terms': _nterms(expr), 'indices': idx_str,
                            'nonzero_reference': nz, 'points': int(val.size)}
            if not np.array_equal(val % p, exp):
                bad = np.argwhere(val % p != exp)
                res.violation(
                    f'mp amplitude({order}, {SPACES[k]}, {idx_str}) '
                    f'[singles={singles}] differs from the explicit RSPT '
                    f'coefficients at {len(bad)} of {val.size} points, first '
                    f'{bad[0].tolist()}: {int(val[tuple(bad[0])])} vs '
                    f'{int(exp[tuple(bad[0])])} on model {case["dims"]}')
            return
        # RE: residual vanishes for the explicit RE amplitudes ...
        nzv = int(np.count_nonzero(val % p))
        # ... and reacts to perturbed amplitudes (not vacuously zero)
        pert = {}
        kmax = min(n_o, n_v)
        for kk in range(1, min(2 * order, kmax) + 1):
            if kk == 1 and order == 1 and not singles:
                continue
            base = ref.amps[(order, kk)]
            noise = gsref.antisym_random(ref.model, f'noise{kk}', kk)
            occm = np.zeros(ref.N, dtype=bool)
            occm[:n_o] = True
            # keep the (virt.., occ..) block only
            sl = [~occm] * kk + [occm] * kk
            mask = np.ix_(*sl)
            arr = np.zeros_like(noise)
            arr[mask] = noise[mask]
            newarr = (arr + (base if base is not None else 0)) % p
            pert[(f't{order}', kk, kk)] = newarr
            pert[(f't{order}cc', kk, kk)] = newarr
        m2 = ref.with_explicit(pert)
        val2 = tm.Evaluator(m2).value(expr, tgt)
        sens = int(np.count_nonzero(val2 % p))
        if sens:
            res.count('residual_sensitive')
        res.nontrivial = sens > 0
        res.count('nonzero_reference_points', sens)
        res.observed = {'terms': _nterms(expr), 'indices': idx_str,
                        'nonzero_residual_points': nzv,
                        'nonzero_after_perturbation': sens}
        if nzv:
            bad = np.argwhere(val % p != 0)
            res.violation(
                f're amplitude_residual({order}, {SPACES[k]}, {idx_str}) '
                f'[singles={singles}] does not vanish for the explicit RE '
                f'wavefunction: {nzv} of {val.size} points non-zero, first '
                f'{bad[0].tolist()} on model {case["dims"]}')
        return
    if q in ('norm', 'overlap'):
        from ..fock import Series
        S = Series(ref.fs, order)
        psi = [dict(v) for v in ref.rspt.psi[:order + 1]]
        ov = S.dot(psi, psi)
        if q == 'norm':
            expr = lib_call(gs.norm_factor, order)
            exp = S.sinv(ov)[order] % p
        else:
            expr = lib_call(gs.overlap, order)
            exp = ov[order] % p
        val = int(ref.ev.value(expr, []))
        res.count('norm_compared')
        res.count('points_compared')
        res.nontrivial = exp != 0
        res.count('nonzero_reference_points', int(exp != 0))
        res.observed = {'terms': _nterms(expr), 'library': val, 'explicit': exp}
        if val != exp:
            res.violation(f'{variant} {q}({order}) [singles={singles}] = {val} != '
                          f'explicit series coefficient {exp} (mod {p}) on model '
                          f'{case["dims"]}')
            return
        # complex-conjugation symmetry: <Psi|Psi> (and 1/<Psi|Psi>) are real, so
        # the expression is invariant under t <-> t^cc. Checked in a model with
        # independent random t and t^cc tensors (the explicit reference is real and
        # can not see a lost complex-conjugate partner).
        names = {f't{k_}' for k_ in range(1, order + 2)}
        swap = {n_: n_ + 'cc' for n_ in names}
        swap.update({n_ + 'cc': n_ for n_ in names})
        m_a = tm.Model(n_o, n_v, seed=mseed + 17, p=p)
        m_b = tm.Model(n_o, n_v, seed=mseed + 17, p=p, alias=swap)
        va = int(tm.Evaluator(m_a).value(expr, []))
        vb = int(tm.Evaluator(m_b).value(expr, []))
        res.count('conjugation_checks')
        if va != vb:
            res.violation(f'{variant} {q}({order}) [singles={singles}] is not '
                          f'invariant under complex conjugation of the amplitudes '
                          f'(t <-> t^cc): {va} vs {vb} with independent random t, '
                          f't^cc tensors')
        return
    if q == 'ev':
        kp = case['k']
        expr = lib_call(gs.expectation_value, order, kp)
        d = gsref.antisym_random(ref.model, 'd', kp)
        m2 = ref.with_explicit({('d', kp, kp): d})
        val = int(tm.Evaluator(m2).value(expr, []))
        exp = _explicit_expectation(ref, d, kp, order)
        res.count('expectation_compared')
        res.count('points_compared')
        res.nontrivial = exp != 0
        res.count('nonzero_reference_points', int(exp != 0))
        res.observed = {'terms': _nterms(expr), 'library': val, 'explicit': exp}
        if val != exp:
            res.violation(f'{variant} expectation_value({order}, {kp}) '
                          f'[singles={singles}] = {val} != explicit '
                          f'<Psi|D|Psi>/<Psi|Psi> coefficient {exp} (mod {p}) on '
                          f'model {case["dims"]}')
        return
    raise ValueError(q)


def _nterms(expr):
    from sympy import Add, sympify
    e = sympify(expr).expand()
    return len(e.args) if isinstance(e, Add) else int(e != 0)


def _confirm(case, ref, gs, mseed):
    """re-evaluate under the second prime: True if it still disagrees"""
    from .. import gsref, tm
    try:
        r2 = gsref.GSRef(case['variant'], case['singles'], ref.n_o, ref.n_v,
                         mseed, max(case['order'], 1), p=tm.PRIMES[1])
    except (ZeroDivisionError, tm.ModelUnusable):
        return True
    expr = gs.energy(case['order'])
    return int(r2.ev.value(expr, [])) != r2.rspt.E[case['order']] % r2.p


def _explicit_expectation(ref, d, kp, order):
    """coefficient `order` of <Psi|D|Psi>/<Psi|Psi>, D = 1/(k!)^2 sum d^{p..}_{q..}
    p+.. q..(reversed)"""
    from ..fock import Series
    fs, p = ref.fs, ref.p
    S = Series(fs, order)
    psi = [dict(v) for v in ref.rspt.psi[:order + 1]]
    while len(psi) < order + 1:
        psi.append({})
    norm = S.dot(psi, psi)
    pref = fs.inv(math.factorial(kp) ** 2)
    dpsi = [fs.apply_general(v, d, kp, kp, pref) if v else {} for v in psi]
    num = S.dot(psi, dpsi)
    return S.smul(num, S.sinv(norm))[order] % p
