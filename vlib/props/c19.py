"""C19 - results are independent of call history, hash seed and tensor-name config.

Each request is executed in fresh interpreter processes under different
PYTHONHASHSEEDs, after random prior API-call histories, and from a scratch copy of the
package with another tensor_names.json; the records of the runs are compared."""
import json
import os
import re
import shutil
import subprocess
import sys
import tempfile

from ..common import fp, rng_for

LEVEL = 'exploration'
BATCH = 1
CASE_TIMEOUT = 3000
RULE = ("a catalogue of requests (energies, amplitudes, expectation values, "
        "matrix blocks, overlaps, transition moments, MVPs, intermediates, "
        "reduce/factor/spin-integration/code-generation pipelines) x hash seeds x "
        "random prior histories (generic-index bursts, explicit index requests "
        "colliding with generic names, other derivations on the same / other "
        "instances, intermediate expansions) x tensor-name configurations, each "
        "in a fresh process; compared: TM value fingerprints (two primes), text "
        "after substitute_contracted, term counts, absence of default names under "
        "the alternative configuration; in-process monitor: psi / norm_factor "
        "results never share contracted indices. non-trivial: >= 2 runs with "
        "different histories compared; distinct by (request, variant).")
ASSUMPTIONS = ["a text difference whose per-term value multisets agree under two "
               "primes is an alpha-renaming of contracted indices (known finding "
               "F6), anything else is a violation"]

ALT_NAMES = {"eri": "Wt", "coulomb": "cl", "fock": "hc", "operator": "op",
             "gs_amplitude": "amp", "gs_density": "rho",
             "left_adc_amplitude": "Lv", "right_adc_amplitude": "Rv",
             "orb_energy": "eps", "sym_orb_denom": "Kd"}
# multi-character names on purpose (name parsing must use the configured length);
# names that sympify to sympy singletons (Q, S, N, E, I, O) are avoided
ALT_ALIAS = {'Wt': 'V', 'cl': 'v', 'hc': 'f', 'op': 'd', 'Lv': 'X', 'Rv': 'Y',
             'Kd': 'D', 'amp1': 't1', 'amp2': 't2', 'amp3': 't3', 'amp4': 't4',
             'rho2': 'p2', 'rho3': 'p3'}

QUICK = ['e3', 'amp2', 'ev2', 'm2', 'ip_cpl', 'tm2', 'ov2', 'mvp1', 're_amp2',
         'itmd_t2_2', 'e2@shared', 'amp2d@shared', 'norm4', 'itmd_p2',
         'spin_generic', 'spin_direct', 'real_ov2', 'spin_ov2', 'prec3s',
         'rt_amp2', 'import_default', 'itmd_t1_3', 'itmd_p03oo']
THOROUGH = QUICK + ['m1c', 'ea2', 're_e3', 'expec1', 'red_e2', 'sym_e2',
                    'fac_m1', 'code_m1', 'amp2d', 'e3@shared', 'm2@shared']


def floors(tier):
    return {'runs_compared': 60, 'histories_nonempty': 25,
            'alt_config_runs': 8, 'psi_norm_calls_monitored': 50}


def gen_cases(tier, seed):
    r = rng_for(seed, 'C19', tier)
    cases = []
    reqs = QUICK if tier == 'quick' else THOROUGH
    nh = 4 if tier == 'quick' else 8
    seeds = ['0', '1', str(2 + seed)] if tier == 'quick' else \
        ['0', '1', '2', '3', str(4 + seed), 'random']
    for q in reqs:
        variants = []
        for hs in seeds:
            for _ in range(nh if hs == '0' else 2):
                variants.append([hs, r.randrange(1, 1 << 30), 'default'])
        # other hash seeds without any prior history: differences can only come
        # from set / dict iteration order
        for hs in (['1', '2'] if tier == 'quick' else ['1', '2', '3', 'random']):
            variants.append([hs, 0, 'default'])
        for _ in range(1 if tier == 'quick' else 3):
            variants.append(['0', r.choice([0, r.randrange(1, 1 << 30)]), 'alt'])
        cases.append({'id': f'C19-{tier[0]}{seed}-{q}', 'request': q,
                      'variants': variants, 'level': tier,
                      'cost': 100 if q in ('fac_m1', 'red_e2', 'm2') else 30})
    # F24 bucket: a request whose *target* names collide with generic names
    cases.append({'id': f'C19-{tier[0]}{seed}-amp2_k3c3', 'request': 'amp2_k3c3',
                  'variants': [['0', r.randrange(1, 1 << 30), 'default']
                               for _ in range(4)],
                  'level': tier, 'cost': 30})
    return cases


def _make_alt_copy(repo):
    d = tempfile.mkdtemp(prefix='verif_altcfg_')
    shutil.copytree(os.path.join(repo, 'adcgen'), os.path.join(d, 'adcgen'),
                    ignore=shutil.ignore_patterns('__pycache__'))
    with open(os.path.join(d, 'adcgen', 'tensor_names.json'), 'w') as f:
        json.dump(ALT_NAMES, f)
    return d


def _run(repo, request, hashseed, hseed, level, names, timeout=1500):
    from ..harness import ROOT, DEPS, PY
    env = dict(os.environ)
    env.pop('PYTHONPATH', None)
    if hashseed == 'random':
        env.pop('PYTHONHASHSEED', None)
        env['PYTHONHASHSEED'] = 'random'
    else:
        env['PYTHONHASHSEED'] = hashseed
    cmd = [PY, '-B', os.path.join(ROOT, 'vlib', 'c19_runner.py'), repo, request,
           str(hseed), level, json.dumps(names), ROOT, DEPS]
    try:
        r = subprocess.run(cmd, env=env, capture_output=True, text=True,
                           timeout=timeout, cwd=tempfile.gettempdir())
    except subprocess.TimeoutExpired:
        return {'error': 'timeout'}
    for line in r.stdout.splitlines():
        if line.startswith('JSON'):
            return json.loads(line[4:])
    return {'error': (r.stderr or r.stdout)[-1500:]}


def run_case(case, res):
    from ..harness import REPO
    import concurrent.futures
    request = case['request']
    alt = None
    try:
        if any(v[2] == 'alt' for v in case['variants']):
            alt = _make_alt_copy(REPO)
        jobs = [('0', 0, 'default')] + [tuple(v) for v in case['variants']]
        with concurrent.futures.ThreadPoolExecutor(max_workers=3) as ex:
            futs = []
            for hs, hseed, cfg in jobs:
                repo = REPO if cfg == 'default' else alt
                names = {} if cfg == 'default' else \
                    {'alias': ALT_ALIAS, 'orb_energy': 'eps'}
                futs.append(ex.submit(_run, repo, request, hs, hseed,
                                      case['level'], names))
            recs = [f.result() for f in futs]
    finally:
        if alt:
            shutil.rmtree(alt, ignore_errors=True)
    base = recs[0]
    res.fingerprint = fp(request)
    if 'error' in base:
        res.violation(f'request {request} failed in a fresh process: '
                      f'{base["error"][-600:]}',
                      ['exception_in_request'] + _tags(request))
        return
    observed = {'request': request, 'terms': base['terms'],
                'text': base['text'][:200], 'runs': []}
    res.observed = observed
    # runs without a prior history first: a text difference there is never the
    # history-dependent renaming of finding F6
    pairs = sorted(zip(jobs[1:], recs[1:]),
                   key=lambda jr: bool(jr[1].get('history')))
    for (hs, hseed, cfg), rec in pairs:
        label = f'hashseed={hs} history={hseed} config={cfg}'
        if 'error' in rec:
            res.violation(f'request {request} failed under {label} although it '
                          f'succeeds in a fresh process: {rec["error"][-500:]}',
                          _tags(request))
            return
        res.count('runs_compared')
        res.count('psi_norm_calls_monitored', rec.get('psi_norm_calls', 0))
        res.count('itmd_contracted_indices_monitored',
                  rec.get('itmd_indices_monitored', 0))
        if rec['history']:
            res.count('histories_nonempty')
            res.nontrivial = True
        observed['runs'].append({'variant': label, 'history': rec['history'],
                                 'same_text': rec['text'] == base['text']})
        if rec.get('clashes'):
            res.violation(f'{request} under {label}: {rec["clashes"][0]}')
            return
        if rec['value'] != base['value']:
            res.violation(f'{request}: the value of the result depends on the '
                          f'run ({label}; history {rec["history"]}): value '
                          f'fingerprints {base["value"]} vs {rec["value"]}',
                          _tags(request))
            return
        if rec['terms'] != base['terms']:
            res.violation(f'{request}: {base["terms"]} terms in a fresh process, '
                          f'{rec["terms"]} under {label}', _tags(request))
            return
        if cfg == 'default':
            if rec['text'] != base['text']:
                if not rec['history']:
                    res.violation(
                        f'{request}: the text of the result differs between two '
                        f'fresh processes without any prior calls ({label}): '
                        f'{base["text"][:200]} vs {rec["text"][:200]}',
                        _tags(request))
                    return
                if rec['term_values'] == base['term_values'] and \
                        base['term_values'] and all(base['term_values']):
                    res.count('alpha_equivalent_text_differences')
                    res.violation(
                        f'{request}: the text after substitute_contracted '
                        f'depends on the call history ({label}; history '
                        f'{rec["history"]}); the two texts are alpha-equivalent '
                        f'(equal per-term values)',
                        ['alpha_equivalent_text_only'])
                else:
                    res.violation(
                        f'{request}: the text after substitute_contracted '
                        f'differs under {label} and the per-term values differ '
                        f'too: {base["text"][:200]} vs {rec["text"][:200]}',
                        _tags(request))
                    return
        else:
            res.count('alt_config_runs')
            left = [n for n in (r'\{V\^', r'\{f\^', r'\{t\d', r'\{X\^', r'\{Y\^',
                                r'\{e_\{', r'\{D\^', r'\{d\^', r'\{p\d')
                    if re.search(n, rec['text'])]
            if left:
                res.violation(f'{request} with the alternative tensor names '
                              f'still prints default names {left}: '
                              f'{rec["text"][:300]}')
                return


def _tags(request):
    return ['target_names_collide_with_generic_names'] \
        if request == 'amp2_k3c3' else []
