"""C04 - intermediate states are orthonormal order by order.

Pure TM oracle with *random* ground-state amplitude tensors (the identity is
algebraic in t, tcc): complex-style models (tNcc independent of tN) and real ones."""
import itertools

import numpy as np

from ..common import fp, lib_call, rng_for

LEVEL = 'exploration'
BATCH = 1
CASE_TIMEOUT = 1800
RULE = ("overlap requests (variant, class pair, order, partitioning mp/re, "
        "first-order singles, real or complex-style amplitude model) evaluated "
        "with random amplitude tensors on every orbital assignment; expected: "
        "antisymmetrised Kronecker delta at order 0 for equal classes, 0 "
        "otherwise; precursor overlaps: symmetric under exchange of the two index"
        " sets. non-trivial: the library expression has >= 1 term before "
        "evaluation (cancellation is numerical) or the expected delta is non-zero;"
        " distinct by (variant, kind, block, order, partitioning, singles, model).")
ASSUMPTIONS = ["random amplitude values over F_p stand for 'every choice of "
               "ground-state amplitudes' (Schwartz-Zippel)"]

OCC = ['i', 'j', 'k', 'l', 'm', 'n', 'o', 'i1', 'j1', 'k2']
VIRT = ['a', 'b', 'c', 'd', 'e', 'f', 'g', 'a1', 'b1', 'c2']


def floors(tier):
    return {'overlap_isr_checked': 30, 'overlap_precursor_checked': 8,
            'points_compared': 3000, 'numerical_cancellations': 10}


def gen_cases(tier, seed):
    from ..isr import spaces_upto
    r = rng_for(seed, 'C04', tier)
    cases = []

    def add(variant, kind, block, order, cost=10, **kw):
        c = dict(variant=variant, kind=kind, block=block, order=order, cost=cost,
                 part=kw.pop('part', r.choice(['mp', 'mp', 're'])),
                 singles=kw.pop('singles', r.random() < 0.4),
                 real=kw.pop('real', r.random() < 0.5),
                 mseed=r.randrange(1 << 30), hseed=r.randrange(1 << 30))
        c.update(kw)
        c['id'] = (f"C04-{tier[0]}{seed}-{len(cases):03d}-{variant}-{kind}-"
                   f"{block.replace(',', '_')}-{order}-{c['part']}"
                   f"{'-s' if c['singles'] else ''}{'-real' if c['real'] else ''}")
        cases.append(c)
    for variant in ('pp', 'ip', 'ea', 'dip', 'dea'):
        s1, s2 = spaces_upto(variant, 2)
        big = variant in ('pp', 'dip', 'dea')
        for a, b in [(s1, s1), (s1, s2), (s2, s1), (s2, s2)]:
            for order in range(0, 3):
                heavy = (a == s2) + (b == s2)
                if tier == 'quick' and big and heavy == 2 and order == 2 \
                        and variant != 'pp':
                    continue
                add(variant, 'isr', f'{a},{b}', order,
                    cost=5 + 20 * order * (1 + heavy) * (2 if big else 1))
        # both partitionings / singles for the lowest class
        for part in ('mp', 're'):
            for singles in (False, True):
                add(variant, 'isr', f'{s1},{s1}', 2, part=part, singles=singles,
                    cost=20)
        if variant in ('ip', 'ea'):
            # fourth order of the lowest class (second term of the S^-1/2 series)
            # and the third class against the first
            s3 = spaces_upto(variant, 3)[2]
            add(variant, 'isr', f'{s1},{s1}', 4, cost=150, part='mp',
                singles=False)
            add(variant, 'isr', f'{s1},{s3}', 1, cost=100, part='mp')
            add(variant, 'isr', f'{s3},{s1}', 1, cost=100, part='mp')
        add(variant, 'precursor', f'{s1},{s1}', 2, real=True, cost=20)
        add(variant, 'precursor', f'{s1},{s2}', 1, real=True, cost=20)
        add(variant, 'precursor', f'{s2},{s2}', 1, real=True, cost=40)
    # third order of the lowest class with first-order singles (products of
    # several first-order wavefunctions in the ground-state projection)
    add('pp', 'precursor', 'ph,ph', 3, real=True, part='mp', singles=True,
        cost=40)
    add('pp', 'isr', 'ph,ph', 3, part='mp', singles=True, cost=120)
    add('ip', 'precursor', 'h,h', 3, real=True, part='mp', singles=True, cost=40)
    if tier == 'thorough':
        for variant in ('pp', 'ip', 'ea', 'dip', 'dea'):
            s1, s2, s3 = spaces_upto(variant, 3)
            add(variant, 'isr', f'{s1},{s1}', 3, cost=300, timeout=4000)
            add(variant, 'isr', f'{s1},{s2}', 3, cost=600, timeout=4000)
            add(variant, 'isr', f'{s2},{s2}', 2, cost=600, timeout=4000)
            add(variant, 'precursor', f'{s2},{s2}', 2, real=True, cost=400,
                timeout=4000)
            add(variant, 'precursor', f'{s1},{s1}', 3, real=True, cost=300,
                timeout=4000)
            if variant in ('ip', 'ea'):
                add(variant, 'isr', f'{s1},{s3}', 1, cost=300, timeout=4000)
                add(variant, 'isr', f'{s3},{s1}', 1, cost=300, timeout=4000)
                add(variant, 'isr', f'{s2},{s3}', 1, cost=600, timeout=4000)
    return cases


def _names(r, space, used):
    no_, nv_ = space.count('h'), space.count('p')
    o = r.sample([s for s in OCC if s not in used], no_)
    v = r.sample([s for s in VIRT if s not in used], nv_)
    used.update(o + v)
    return o, v


def run_case(case, res):
    from adcgen import GroundState, Operators, IntermediateStates, get_symbols
    from .. import tm
    from .c03 import canon, _nterms
    variant, kind, order = case['variant'], case['kind'], case['order']
    r = rng_for(case['hseed'], 'names')
    spI, spJ = case['block'].split(',')
    # enough orbitals for every class to exist (k holes need k occupied orbitals)
    need_o = max(spI.count('h'), spJ.count('h'), 2)
    need_v = max(spI.count('p'), spJ.count('p'), 2)
    n_h, n_p = (spI + spJ).count('h'), (spI + spJ).count('p')
    opts = [(need_o, need_v), (need_o + 1, need_v), (need_o, need_v + 1)]
    opts = [d for d in opts if d[0] ** n_h * d[1] ** n_p <= 20000] or \
        [(need_o, need_v)]
    dims = r.choice(opts)
    alias = {}
    if case['real']:
        alias = {f't{n}cc': f't{n}' for n in range(1, 6)}
    model = tm.Model(dims[0], dims[1], seed=case['mseed'], alias=alias)
    ev = tm.Evaluator(model)
    p = model.p
    gs = GroundState(Operators(case['part']), case['singles'])
    isr = IntermediateStates(gs, variant)
    used = set()
    Io, Iv = _names(r, spI, used)
    Jo, Jv = _names(r, spJ, used)
    sI, sJ = ''.join(Io + Iv), ''.join(Jo + Jv)
    tgt = get_symbols(Io + Iv + Jo + Jv)
    doms = [model.domain(s) for s in tgt]
    shape = tuple(len(d) for d in doms)
    res.fingerprint = fp(variant, kind, case['block'], order, case['part'],
                         case['singles'], case['real'], dims)
    if kind == 'isr':
        expr = lib_call(isr.overlap_isr, order, f'{spI},{spJ}', f'{sI},{sJ}')
        val = ev.value(expr, tgt)
        exp = np.zeros(shape, dtype=np.int64)
        if order == 0 and spI == spJ:
            nIo, nIv, nJo = len(Io), len(Iv), len(Jo)
            for pos in itertools.product(*[range(n) for n in shape]):
                orbs = [int(d[k]) for d, k in zip(doms, pos)]
                ci = canon(tuple(orbs[nIo:nIo + nIv]), tuple(orbs[:nIo]))
                cj = canon(tuple(orbs[nIo + nIv + nJo:]),
                           tuple(orbs[nIo + nIv:nIo + nIv + nJo]))
                if ci and cj and ci[1] == cj[1]:
                    exp[pos] = ci[0] * cj[0] % p
        nt = _nterms(expr)
        res.count('overlap_isr_checked')
        res.count('points_compared', int(exp.size))
        if nt and not np.any(exp):
            res.count('numerical_cancellations')
        res.nontrivial = bool(nt)
        res.observed = {'indices': f'{sI},{sJ}', 'terms': nt,
                        'points': int(exp.size), 'model': list(dims),
                        'nonzero_expected': int(np.count_nonzero(exp))}
        if not np.array_equal(val % p, exp):
            bad = np.argwhere(val % p != exp)
            res.violation(
                f'{variant} overlap_isr({order}, {spI},{spJ}, {sI},{sJ}) '
                f'[{case["part"]}, singles={case["singles"]}, real={case["real"]}]'
                f' is not {"the antisymmetrised delta" if np.any(exp) else "zero"}'
                f' at {len(bad)} of {exp.size} points; first {bad[0].tolist()}: '
                f'{int(val[tuple(bad[0])])} vs {int(exp[tuple(bad[0])])}')
        return
    # precursor overlap: S_IJ(I,J) == S_JI(J,I) in a real model
    e1 = lib_call(isr.overlap_precursor, order, f'{spI},{spJ}', f'{sI},{sJ}')
    e2 = lib_call(isr.overlap_precursor, order, f'{spJ},{spI}', f'{sJ},{sI}')
    v1 = ev.value(e1, tgt)
    v2 = ev.value(e2, tgt)
    res.count('overlap_precursor_checked')
    res.count('points_compared', int(v1.size))
    res.nontrivial = bool(np.any(v1))
    res.observed = {'indices': f'{sI},{sJ}', 'terms': _nterms(e1),
                    'nonzero_points': int(np.count_nonzero(v1))}
    if not np.array_equal(v1, v2):
        bad = np.argwhere(v1 != v2)
        res.violation(
            f'{variant} overlap_precursor({order}) is not symmetric: '
            f'S[{spI},{spJ}]({sI},{sJ}) != S[{spJ},{spI}]({sJ},{sI}) at '
            f'{len(bad)} of {v1.size} points')
    if order == 0:
        # zeroth order precursor overlap is the antisymmetrised delta / zero
        pass
