"""C18 - printing an expression and importing the text restores the expression."""
import numpy as np

from ..common import fp, lib_call, rng_for
from .. import ir

LEVEL = 'exploration'
BATCH = 25
CASE_TIMEOUT = 600
RULE = ("generated expanded expressions over every tensor kind the library "
        "produces (antisymmetric V/f/d/densities, t and ADC amplitudes, Coulomb "
        "integrals v, symbolic denominators D, orbital energies and other "
        "non-symmetric tensors), deltas, spin-labelled and numbered indices, "
        "orbital-energy fractions with powers, rational/sqrt prefactors, symbols, "
        "creation/annihilation operators and normal-ordered groups, plus the "
        "outputs of real derivations: print -> import_from_sympy_latex -> re-apply "
        "the assumptions; compared: TM value on all target assignments (structural"
        " equality for operator strings), Python class per tensor name, re-printed "
        "text. non-trivial: >= 2 objects; distinct by structural fingerprint.")
ASSUMPTIONS = ["tensor kinds restricted to those the library itself produces "
               "(SymmetricTensor only for the Coulomb integral and the symbolic "
               "denominator, Amplitude only for configured amplitude names)"]


def floors(tier):
    q = {'roundtrips': 250, 'with_fraction': 40, 'with_spin': 40,
         'with_operators': 25, 'with_symbolic_denominator': 15,
         'pipeline_roundtrips': 4}
    if tier == 'thorough':
        q = {k: v * 5 for k, v in q.items()}
    return q


CAT = [
    dict(name='V', t='anti', nu=2, nl=2, rule='any', w=4),
    dict(name='f', t='anti', nu=1, nl=1, rule='any', w=3),
    dict(name='t1', t='amp', nu=2, nl=2, rule='amp', w=3),
    dict(name='t2', t='amp', nu=1, nl=1, rule='amp', w=2),
    dict(name='t2', t='amp', nu=2, nl=2, rule='amp', w=2),
    dict(name='t3cc', t='amp', nu=3, nl=3, rule='amp', w=1),
    dict(name='t1cc', t='amp', nu=2, nl=2, rule='amp', w=1),
    dict(name='X', t='amp', nu=1, nl=1, rule='amp', w=1),
    dict(name='Y', t='amp', nu=2, nl=2, rule='amp', w=1),
    dict(name='Y', t='amp', nu=1, nl=2, rule='amp', w=1),
    dict(name='d', t='anti', nu=1, nl=1, rule='any', w=2),
    dict(name='d', t='anti', nu=2, nl=2, rule='any', w=1),
    dict(name='d', t='anti', nu=0, nl=1, rule='any', w=1),
    dict(name='p2', t='anti', nu=1, nl=1, rule='any', w=1),
    dict(name='v', t='sym', nu=2, nl=2, rule='any', w=2),
    dict(name='D', t='sym', nu=2, nl=2, rule='amp', w=2),
    dict(name='D', t='sym', nu=1, nl=1, rule='amp', w=1),
    dict(name='t2eri4', t='anti', nu=2, nl=2, rule='any', w=1),
    dict(name='x', t='non', nu=2, nl=0, rule='any', w=1),
    dict(name='y', t='non', nu=3, nl=0, rule='any', w=1),
]


def gen_cases(tier, seed):
    from ..gen import ExprGen
    import vlib.gen as G
    r = rng_for(seed, 'C18', tier)
    n = 420 if tier == 'quick' else 4200
    cases = []
    saved = {sp: list(v) for sp, v in G.POOLS.items()}
    try:
        G.POOLS['occ'] = ['i', 'j', 'k', 'l', 'i1', 'j12', 'm', 'n3']
        G.POOLS['virt'] = ['a', 'b', 'c', 'd', 'a3', 'b10', 'e', 'f2']
        G.POOLS['general'] = ['p', 'q', 'r', 'p2']
        for k in range(n):
            spin = r.random() < 0.3
            # plain symbols are not in the property's list; bra-ket symmetries are
            # declared through the assumptions (as the library itself does)
            g = ExprGen(r, CAT, spin=spin, general=r.choice([0.0, 0.15, 0.3]),
                        exponents=0.15, hyper=0.05, symbols=0.0, max_pool=8)
            first = g.term(nobj=r.randint(1, 4))
            if first is None:
                continue
            tg = ir.term_targets(first)
            terms = [first]
            for _ in range(r.choice([0, 0, 1, 2, 3])):
                t2 = g.term(targets=tg, nobj=r.randint(1, 4))
                if t2 is not None:
                    terms.append(t2)
            for t in terms:
                idxs = sorted(ir.term_indices(t))
                if r.random() < 0.25 and idxs:
                    a = r.choice(idxs)
                    same = [s for s in idxs if s != a and
                            ir.index_space(ir.split_index(s)[0]) ==
                            ir.index_space(ir.split_index(a)[0]) and
                            ir.split_index(s)[1] == ir.split_index(a)[1]]
                    if same:
                        t['objs'].append({'t': 'delta',
                                          'up': [a, r.choice(same)]})
                nosp = [s for s in idxs
                        if ir.index_space(ir.split_index(s)[0]) != 'general']
                if r.random() < 0.3 and len(nosp) >= 2:
                    for _b in range(r.choice([1, 1, 2])):
                        kk = r.randint(2, min(4, len(nosp)))
                        sg = r.choice([1, -1])
                        e = [[str(sg if ir.index_space(ir.split_index(s)[0])
                                  == 'occ' else -sg), s]
                             for s in r.sample(nosp, kk)]
                        t['objs'].append({'t': 'br', 'e': e,
                                          'exp': -r.choice([1, 1, 2, 3])})
                if r.random() < 0.12 and nosp:
                    e = [[r.choice(['1', '-1', '2', '1/2']), s]
                         for s in r.sample(nosp, min(len(nosp), r.randint(1, 3)))]
                    t['objs'].append({'t': 'br', 'e': e, 'exp': 1})
            ops = None
            if r.random() < 0.12 and not spin:
                # operator strings / normal ordered groups (no spin: sympy F/Fd)
                pool = [s for s in sorted(ir.term_indices(first))] or ['i', 'a']
                nop = r.choice([2, 2, 3, 4])
                ops = {'ops': [[r.choice('ca'), r.choice(pool + ['p', 'q'])]
                               for _ in range(nop)],
                       'no': r.random() < 0.5}
            assump = {'real': r.random() < 0.4, 'sym_tensors': [],
                      'antisym_tensors': []}
            if r.random() < 0.3:
                assump['sym_tensors'] = r.sample(['d', 'p2', 'V'],
                                                 r.randint(1, 2))
            names_used = {o.get('name') for t in terms for o in t['objs']}
            if 'D' in names_used:
                assump['antisym_tensors'] = ['D']
                # powers of symbolic denominators (second-order terms)
                tgs = set(tg)
                for t in terms:
                    for o in t['objs']:
                        if o.get('name') == 'D' and 'exp' not in o and \
                                not tgs & set(ir.obj_index_list(o)) and \
                                r.random() < 0.45:
                            o['exp'] = r.choice([2, 2, 3])
            if 'v' in names_used and r.random() < 0.7:
                assump['sym_tensors'] = assump['sym_tensors'] + ['v']
            cases.append({'id': f'C18-{tier[0]}{seed}-{k:05d}', 'kind': 'gen',
                          'terms': terms, 'targets': tg, 'spin': spin,
                          'ops': ops, 'assump': assump,
                          'unexpanded': ops is None and r.random() < 0.4,
                          'mseed': r.randrange(1 << 30)})
    finally:
        G.POOLS.update(saved)
    pipes = ['gs_energy_2', 'gs_amp_mp_2', 'gs_amp_re_2', 'isr_pp_1', 'psi_2',
             'spin_integrated', 'symbolic_denoms']
    if tier == 'thorough':
        pipes += ['isr_ip_2', 'precursor_pp', 'mp2_density', 'intermediates']
    for name in pipes:
        cases.append({'id': f'C18-{tier[0]}{seed}-pipe-{name}', 'kind': 'pipe',
                      'name': name, 'cost': 100, 'timeout': 1500,
                      'mseed': r.randrange(1 << 30)})
    return cases


def classes(x):
    from adcgen.sympy_objects import SymbolicTensor
    out = {}
    for t_ in x.atoms(SymbolicTensor):
        out.setdefault(t_.name, set()).add(type(t_).__name__)
    return {k: sorted(v) for k, v in out.items()}


def roundtrip(E, res, tgt, model_args, label, tags=(), check_text=True,
              raw=None):
    """E: adcgen Expr (expanded). Returns False if a violation was recorded."""
    from adcgen import Expr, import_from_sympy_latex
    from sympy.physics.secondquant import FermionicOperator, NO
    from .. import tm
    s1 = str(E)
    B0 = lib_call(import_from_sympy_latex, s1, refusals=())
    B = lib_call(Expr, B0.sympy, **E.assumptions)
    s2 = str(B)
    res.count('roundtrips')
    has_ops = bool(E.sympy.atoms(FermionicOperator)) or bool(E.sympy.atoms(NO))
    if has_ops:
        res.count('with_operators')
    c1, c2 = classes(E.sympy), classes(B.sympy)
    if c1 != c2:
        res.violation(f'{label}: tensor kinds changed by print -> import: {c1} '
                      f'-> {c2}; text: {s1[:300]}', tags)
        return False
    if has_ops:
        if (E.sympy - B.sympy).expand() != 0:
            res.violation(f'{label}: imported expression differs: {s1[:300]} -> '
                          f'{s2[:300]}', tags)
            return False
    else:
        model = tm.Model(**model_args)
        ev = tm.Evaluator(model)
        try:
            if tgt is None:
                u0, v0 = ev.value_einstein(E.sympy)
                u1, v1 = ev.value_einstein(B.sympy)
                same = u0 == u1 and np.array_equal(v0, v1)
            else:
                v0, v1 = ev.value(E.sympy, tgt), ev.value(B.sympy, tgt)
                same = np.array_equal(v0, v1)
            res.count('points_compared', int(np.asarray(v0).size))
        except tm.ModelUnusable:
            res.count('model_retry')
            same = (E.sympy - B.sympy).expand() == 0
        if not same:
            res.violation(f'{label}: value changed by print -> import: '
                          f'{s1[:300]}  ->  {s2[:300]}', tags)
            return False
        if raw is not None and tgt is not None:
            # the plain sympy object the container was built from, in the same
            # model (which satisfies the declared assumptions)
            try:
                if not np.array_equal(ev.value(raw, tgt), v1):
                    res.violation(
                        f'{label}: the imported text does not have the value of '
                        f'the expression the container was built from: {raw} '
                        f'(assumptions {E.assumptions}) -> {s2[:300]}', tags)
                    return False
            except tm.ModelUnusable:
                pass
    if check_text and s1 != s2:
        res.violation(f'{label}: re-printed text differs: {s1[:300]}  ->  '
                      f'{s2[:300]}', tags)
        return False
    return True


def run_case(case, res):
    if case['kind'] == 'pipe':
        return run_pipe(case, res)
    from adcgen import Expr
    from sympy import Mul, S
    from sympy.physics.secondquant import F, Fd, NO
    e = ir.mk_expr(case['terms'])
    if case['ops']:
        try:
            m = Mul(*[Fd(ir.mk_index(s)) if k == 'c' else F(ir.mk_index(s))
                      for k, s in case['ops']['ops']])
            if case['ops']['no']:
                m = NO(m)
        except Exception:
            m = S.One
        e = (e * m)
    e = e.expand()
    if e == 0 or e.is_number:
        res.skip('zero input')
        return
    a = case['assump']
    E = lib_call(Expr, e, real=a['real'], sym_tensors=a['sym_tensors'] or None,
                 antisym_tensors=a['antisym_tensors'] or None).expand()
    if case.get('unexpanded'):
        # extra (beyond the letter of the property): the same expression with its
        # orbital-energy brackets left as \left(...\right)^{n}; value and kinds
        E0 = lib_call(Expr, ir.mk_expr(case['terms']), real=a['real'],
                      sym_tensors=a['sym_tensors'] or None,
                      antisym_tensors=a['antisym_tensors'] or None)
        res.count('unexpanded_roundtrips')
    tgt = [ir.mk_index(s) for s in case['targets']]
    sym = {}
    if a['real']:
        sym.update({'V': 1, 'f': 1})
    for nme in a['sym_tensors']:
        sym[nme] = 1
    for nme in a['antisym_tensors']:
        sym[nme] = -1
    dims = (4, 4) if case['spin'] else (2, 3)
    margs = dict(n_o=dims[0], n_v=dims[1], seed=case['mseed'],
                 spin=case['spin'], sym=sym,
                 alias={f't{n}cc': f't{n}' for n in range(1, 5)}
                 if a['real'] else {})
    nobj = sum(len(t['objs']) for t in case['terms'])
    res.nontrivial = nobj >= 2
    res.fingerprint = fp(_shape(case['terms']), case['spin'], bool(case['ops']),
                         a)
    if any(o['t'] == 'br' for t in case['terms'] for o in t['objs']):
        res.count('with_fraction')
    if case['spin']:
        res.count('with_spin')
    if any(o.get('name') == 'D' for t in case['terms'] for o in t['objs']):
        res.count('with_symbolic_denominator')
    res.observed = {'text': str(E)[:400], 'assumptions': a}
    if roundtrip(E, res, tgt, margs, 'generated',
                 raw=None if case['ops'] else e) and case.get('unexpanded'):
        # observation only: expanded expressions never contain bracket powers, so
        # this shape is outside the property's quantifier (the importer fails on
        # some of these texts on the unchanged tree)
        from ..common import CaseResult, LibCrash
        probe = CaseResult({'id': case['id']})
        try:
            roundtrip(E0, probe, tgt, margs, 'brackets not expanded',
                      check_text=False)
        except LibCrash:
            res.count('unexpanded_import_raised')
        else:
            if probe.status == 'violation':
                res.count('unexpanded_value_or_kind_mismatch')


def run_pipe(case, res):
    from adcgen import (Expr, GroundState, Operators, IntermediateStates,
                        SecularMatrix, transform_to_spatial_orbitals, Intermediates)
    name = case['name']
    gs = GroundState(Operators('mp'))
    exprs = []
    real = False
    if name == 'gs_energy_2':
        exprs = [Expr(gs.energy(2)), Expr(gs.energy(3), real=True)]
    elif name == 'gs_amp_mp_2':
        exprs = [Expr(gs.amplitude(2, 'pphh', 'ijab')),
                 Expr(gs.amplitude(2, 'ph', 'ia'))]
    elif name == 'gs_amp_re_2':
        g2 = GroundState(Operators('re'), True)
        exprs = [Expr(g2.amplitude(2, 'pphh', 'ijab')),
                 Expr(g2.amplitude(1, 'ph', 'ia'))]
    elif name == 'isr_pp_1':
        isr = IntermediateStates(gs, 'pp')
        m = SecularMatrix(isr)
        exprs = [Expr(m.isr_matrix_block(1, 'ph,ph', 'ia,jb')),
                 Expr(m.mvp_block_order(1, 'ph', 'ph,pphh', 'ia'))]
    elif name == 'isr_ip_2':
        isr = IntermediateStates(gs, 'ip')
        m = SecularMatrix(isr)
        exprs = [Expr(m.isr_matrix_block(2, 'h,h', 'i,j')),
                 Expr(m.isr_matrix_block(1, 'h,phh', 'i,jka'))]
    elif name == 'psi_2':
        exprs = [Expr(gs.psi(2, 'ket')), Expr(gs.psi(1, 'bra')),
                 Expr(Operators('mp').h1[0]), Expr(Operators('re').h0[0])]
    elif name == 'precursor_pp':
        isr = IntermediateStates(gs, 'pp')
        exprs = [Expr(isr.precursor(1, 'ph', 'ket', 'ia')),
                 Expr(isr.overlap_precursor(2, 'ph,ph', 'ia,jb'))]
    elif name == 'spin_integrated':
        e = Expr(gs.energy(2), real=True)
        exprs = [transform_to_spatial_orbitals(e, '', '', restricted=False),
                 transform_to_spatial_orbitals(
                     Expr(gs.amplitude(1, 'pphh', 'ijab'), real=True,
                          target_idx='ijab'), 'ijab',
                     'abab', restricted=False, expand_eri=False)]
    elif name == 'symbolic_denoms':
        e = Expr(gs.amplitude(2, 'ph', 'ia'), real=True)
        exprs = [e.copy().expand().use_symbolic_denominators(),
                 Expr(gs.energy(2), real=True).expand_intermediates()
                 .use_symbolic_denominators()]
    elif name == 'mp2_density':
        exprs = [Expr(gs.expectation_value(2, 1), real=True)]
    elif name == 'intermediates':
        itmd = Intermediates()
        exprs = [itmd.available['t2_2'].expand_itmd(fully_expand=False),
                 itmd.available['p0_2_oo'].expand_itmd(fully_expand=False),
                 itmd.available['t2eri_3'].expand_itmd()]
    ok = True
    # raw results and results after renaming the contracted indices
    exprs = [x for E in exprs for x in (E, E.copy().substitute_contracted())]
    for k, E in enumerate(exprs):
        E = E.expand()
        tags = []
        seen = {}
        for s_ in E.sympy.atoms():
            if hasattr(s_, 'space') and hasattr(s_, 'spin'):
                key = (s_.name, s_.space, s_.spin)
                if seen.setdefault(key, s_) is not s_:
                    tags = ['same_name_distinct_index_objects']
        if tags:
            res.count('ambiguous_text_inputs')
        spin = any(s.spin for s in E.sympy.atoms() if hasattr(s, 'spin'))
        sym = {}
        if E.real:
            sym.update({'V': 1, 'f': 1})
        for nme in E.sym_tensors:
            sym[nme] = 1
        for nme in E.antisym_tensors:
            sym[nme] = -1
        margs = dict(n_o=4 if spin else 2, n_v=4 if spin else 2,
                     seed=case['mseed'] + k, spin=spin, sym=sym,
                     alias={f't{n}cc': f't{n}' for n in range(1, 5)}
                     if E.real else {})
        tgt = E.provided_target_idx
        ok = roundtrip(E, res, list(tgt) if tgt is not None else None, margs,
                       f'{name}[{k}]', tags) and ok
        res.count('pipeline_roundtrips')
        if not ok and not tags:
            break
    res.nontrivial = True
    res.fingerprint = fp('pipe', name)
    res.observed = {'pipeline': name, 'expressions': len(exprs),
                    'first': str(exprs[0])[:200]}


def _shape(terms):
    out = []
    for t in terms:
        out.append(sorted((o['t'], o.get('name', ''), len(o.get('up', [])),
                           len(o.get('lo', [])), o.get('exp', 1),
                           len(o.get('e', []))) for o in t['objs']))
    return sorted(out)
