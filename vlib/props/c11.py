"""C11 - expanding, factoring and reducing intermediates are mutually consistent.

Definitional model: the TM array of every intermediate tensor is computed by
evaluating its registered (fully expanded) definition on all index assignments; then
val(E) = val(expand(E)) = val(factor(expand(E))) = val(reduce_expr(E))."""
import numpy as np

from ..common import fp, lib_call, rng_for, Refused

LEVEL = 'exploration'
BATCH = 4
CASE_TIMEOUT = 1500
RULE = ("expressions = linear combinations of (intermediate tensor x free tensors)"
        " over the registered intermediates, expanded (fully / once) and perturbed "
        "(one prefactor changed -> mixed-prefactor path, one term dropped -> "
        "incomplete intermediate), then factored for random subsets / types / "
        "max_order and reduced; all values compared on every target assignment in "
        "the definitional model (intermediate tensors take the value of their "
        "registered definitions). Plus the repository's factor-test expressions "
        "and (thorough) the ADC(2) ph/ph pipeline of the example script. "
        "non-trivial: factorisation re-introduced an intermediate tensor / the "
        "expansion changed the expression; distinct by (intermediates, remainder "
        "shape, perturbation, request).")
ASSUMPTIONS = ["real orbital basis",
               "definitional arrays are merged per (tensor name, rank) over all "
               "registered blocks"]

QUICK_ITMDS = ['t2_1', 't1_2', 't2_2', 'p0_2_oo', 'p0_2_vv', 't2eri_1', 't2eri_2',
               't2eri_3', 't2eri_4', 't2eri_5', 't2eri_6', 't2eri_7', 't2sq',
               't2eri_A', 't2eri_B']
THOROUGH_ITMDS = QUICK_ITMDS + ['t3_2', 't1_3', 'p0_3_oo', 'p0_3_vv', 'p0_3_ov']
FAMILY = {'t2eri_A': 'piA', 't2eri_1': 'piA', 't2eri_2': 'piA',
          't2eri_B': 'piB', 't2eri_6': 'piB', 't2eri_7': 'piB'}
LONG = ('t2_2', 't1_2', 't2eri_A', 't2eri_B', 'p0_2_oo', 'p0_2_vv', 't1_3',
        'p0_3_oo', 'p0_3_vv', 'p0_3_ov')
OCC = ['i', 'j', 'k', 'l', 'm', 'n']
VIRT = ['a', 'b', 'c', 'd', 'e', 'f']


def floors(tier):
    return {'expand_checked': 30, 'factor_checked': 30, 'reduce_checked': 25,
            'refactored': 10, 'points_compared': 300}


def gen_cases(tier, seed):
    r = rng_for(seed, 'C11', tier)
    n = 300 if tier == 'quick' else 900
    n3 = 0 if tier == 'quick' else 36    # third-order intermediates: minutes each
    cases = []
    for k in range(n):
        pool = QUICK_ITMDS if k < n - n3 - 10 or k >= n - 10 else \
            ['t3_2', 't1_3', 'p0_3_vv', 'p0_3_ov', 'p0_3_oo'] + QUICK_ITMDS[:3]
        nterms = r.choice([1, 1, 2])
        # F23 (open): the same long intermediate in two terms with different
        # prefactors - kept in a separate small bucket
        bucket = k >= n - 10
        if bucket:
            nterms = 2
        terms = []
        for _ in range(nterms):
            # long intermediates (several terms) get more weight
            name = r.choice(pool + [x for x in pool if x in LONG] * 2)
            if bucket and terms:
                name = terms[0]['itmd']
            elif terms:
                name = r.choice([x for x in pool if FAMILY.get(x, x) !=
                                 FAMILY.get(terms[0]['itmd'],
                                            terms[0]['itmd'])])
            terms.append({'itmd': name, 'iseed': r.randrange(1 << 30),
                          'denom': r.choice([0, 0, 0, 1, 2])
                          if nterms == 1 and not bucket else 0,
                          'twice': nterms == 1 and not bucket
                          and r.random() < 0.12,
                          'num': r.choice([0, 0, 0, 0, 0, 1, 1, 2])
                          if nterms == 1 and not bucket else 0,
                          'pref': r.choice(['1', '-1', '2', '1/2', '-1/3']),
                          # several terms: all indices linked (same targets)
                          'nlink': r.random() if nterms == 1 else 1.0,
                          'free_ok': nterms == 1})
        req = r.choice(['same', 'same', 'all', 'type', 'with_t2_1', 'order'])
        cases.append({'id': f'C11-{tier[0]}{seed}-{k:04d}', 'kind': 'gen',
                      'terms': terms, 'request': req,
                      'perturb': r.choice(['none', 'pref', 'pref', 'drop']),
                      'once': r.random() < 0.3, 'pseed': r.randrange(1 << 30),
                      'mseed': seed * 1000 + (k % 3), 'tier': tier,
                      'cost': 30, 'timeout': 1500})
    # the same intermediate with the same remainder tensors twice, the terms
    # differ in the left-over denominator only (must not be pooled)
    for q in range(8 if tier == 'quick' else 40):
        name = r.choice(['t2_2', 't1_2', 't2_1', 't2_2'])
        iseed = r.randrange(1 << 30)
        d1, d2 = r.choice([(1, 2), (0, 1), (2, 1), (1, 0)])
        nl = r.choice([0.5, 1.0])
        terms = [{'itmd': name, 'iseed': iseed, 'denom': d1, 'pref': '1',
                  'nlink': nl, 'free_ok': False, 'force_plain': True},
                 {'itmd': name, 'iseed': iseed, 'denom': d2,
                  'pref': r.choice(['3', '-2', '1/2']), 'nlink': nl,
                  'free_ok': False, 'force_plain': True}]
        cases.append({'id': f'C11-{tier[0]}{seed}-twodenom-{q}', 'kind': 'gen',
                      'terms': terms,
                      'request': r.choice(['same', 'with_t2_1', 'order']),
                      'perturb': 'none', 'once': False,
                      'pseed': r.randrange(1 << 30), 'mseed': seed * 1000,
                      'tier': tier, 'cost': 40, 'timeout': 1500})
    # fixed exhibit of the open finding F23 (independent of the random stream):
    # 2 t2_2 Y - t2_2 Y' with antisymmetric remainders, one expanded term dropped
    cases.append({'id': f'C11-{tier[0]}{seed}-F23-exhibit', 'kind': 'gen',
                  'terms': [{'itmd': 't2_2', 'iseed': 874621962, 'denom': 0,
                             'pref': '2', 'nlink': 1.0, 'free_ok': False},
                            {'itmd': 't2_2', 'iseed': 760576781, 'denom': 0,
                             'pref': '-1', 'nlink': 1.0, 'free_ok': False}],
                  'request': 'same', 'perturb': 'drop', 'once': False,
                  'pseed': 608748641, 'mseed': 3002, 'tier': tier, 'cost': 30,
                  'timeout': 1500})
    # fixed exhibit of the open finding F29: p3^i_j from its own expansion
    cases.append({'id': f'C11-{tier[0]}{seed}-F29-exhibit', 'kind': 'gen',
                  'terms': [{'itmd': 'p0_3_oo', 'iseed': 1, 'denom': 0,
                             'pref': '1', 'nlink': 0.0, 'free_ok': False}],
                  'request': 'same', 'perturb': 'none', 'once': False,
                  'pseed': 1, 'mseed': 0, 'tier': 'thorough', 'cost': 60,
                  'timeout': 1500, 'no_reduce': True})
    for name in ['repo_t2_1', 'repo_long_complete', 'repo_long_mixed']:
        cases.append({'id': f'C11-{tier[0]}{seed}-{name}', 'kind': 'repo',
                      'name': name, 'mseed': seed * 1000, 'tier': tier,
                      'cost': 100, 'timeout': 2400})
    if tier == 'thorough':
        cases.append({'id': f'C11-{tier[0]}{seed}-adc2-pipeline', 'kind': 'pipe',
                      'mseed': seed * 1000, 'tier': tier, 'cost': 2000,
                      'timeout': 5400})
    return cases


_DEF_CACHE = {}


def definitional_model(mseed, tier, dims=(2, 3)):
    """tm.Model whose intermediate tensors carry the values of their registered
    definitions"""
    key = (mseed, tier, dims)
    if key in _DEF_CACHE:
        return _DEF_CACHE[key]
    from adcgen import Intermediates, get_symbols, Expr
    from adcgen.sympy_objects import (AntiSymmetricTensor, Amplitude,
                                      NonSymmetricTensor)
    from .. import tm
    n_o, n_v = dims
    N = n_o + n_v
    base = tm.Model(n_o, n_v, seed=mseed, sym={'V': 1, 'f': 1})
    evb = tm.Evaluator(base)
    itm = Intermediates().available
    DEF = {}
    names = QUICK_ITMDS if tier == 'quick' else THOROUGH_ITMDS
    for name in names:
        it = itm[name]
        tgt = get_symbols(it.default_idx)
        val = evb.value(Expr(it.expand_itmd().sympy, real=True).sympy, tgt)
        ten = it.tensor(return_sympy=True)
        tix = list(ten.idx)
        arr = np.transpose(val, [tgt.index(s) for s in tix])
        if isinstance(ten, Amplitude):
            k = len(ten.upper)
            arr = np.transpose(arr, list(range(k, 2 * k)) + list(range(k)))
            order = list(ten.upper) + list(ten.lower)
        elif isinstance(ten, AntiSymmetricTensor):
            order = list(ten.upper) + list(ten.lower)
        else:
            order = tix
        nu = len(ten.upper) if isinstance(ten, AntiSymmetricTensor) \
            else len(order)
        dkey = (ten.name, nu, len(order) - nu)
        full = DEF.get(dkey)
        if full is None:
            full = np.zeros((N,) * len(order), dtype=np.int64)
        full[np.ix_(*[base.domain(s) for s in order])] = arr
        # bra-ket symmetric tensors (p2, t2sq): also the swapped block
        bk = int(getattr(ten, 'bra_ket_sym', 0) or 0)
        if bk and nu == len(order) - nu:
            perm = list(range(nu, 2 * nu)) + list(range(nu))
            sw = np.zeros_like(full)
            sw[np.ix_(*[base.domain(order[q]) for q in perm])] = \
                np.transpose(arr, perm) * bk % base.p
            full = np.where(full != 0, full, sw)
        DEF[dkey] = full
    sym = {'V': 1, 'f': 1, 'p2': 1, 'p3': 1, 't2sq': 1}
    model = tm.Model(n_o, n_v, seed=mseed, sym=sym, explicit=DEF,
                     alias={f't{n}cc': f't{n}' for n in range(1, 5)})
    model.e = base.e
    _DEF_CACHE[key] = model
    return model


def build_term(tdesc):
    """intermediate tensor with random index names x a free tensor linking some of
    its indices"""
    from adcgen import Intermediates
    from adcgen.sympy_objects import NonSymmetricTensor
    from adcgen import get_symbols
    from sympy import S, sympify
    r = rng_for(tdesc['iseed'], 'term')
    it = Intermediates().available[tdesc['itmd']]
    idx = []
    for d in it.default_idx:
        pool = OCC if d[0] in 'ijklmno' else VIRT
        idx.append(r.choice([s for s in pool if s not in idx]))
    ten = it.tensor(indices=idx, return_sympy=True)
    k = int(round(tdesc['nlink'] * len(idx)))
    link = r.sample(idx, k)
    occ_l = [s for s in link if s[0] in 'ijklmno']
    virt_l = [s for s in link if s[0] in 'abcdefgh']
    if (len(occ_l) >= 2 or len(virt_l) >= 2) and r.random() < 0.6 \
            and not tdesc.get('force_plain'):
        # a remainder that is antisymmetric in the linked indices: several terms
        # of a long intermediate are then mapped onto each other
        from adcgen.sympy_objects import AntiSymmetricTensor
        extra_o = [s for s in OCC if s not in idx]
        extra_v = [s for s in VIRT if s not in idx]
        up = list(occ_l)
        lo = list(virt_l)
        # a few free (target) indices on the remainder
        if tdesc.get('free_ok', True) and r.random() < 0.5:
            lo = lo + r.sample(extra_o, 1)
        if tdesc.get('free_ok', True) and r.random() < 0.5:
            lo = lo + r.sample(extra_v, 1)
        rem = AntiSymmetricTensor('Y', tuple(get_symbols(up)),
                                  tuple(get_symbols(lo)))
        tdesc['_anti'] = True
    else:
        rem = NonSymmetricTensor('x', tuple(get_symbols(link))) if link \
            else S.One
    if tdesc.get('twice'):
        # the same intermediate a second time in the term (other index names):
        # both expansions need their own contracted indices
        idx2 = []
        for d in it.default_idx:
            pool = OCC if d[0] in 'ijklmno' else VIRT
            free = [s for s in pool if s not in idx and s not in idx2]
            if not free:
                idx2 = None
                break
            idx2.append(r.choice(free))
        if idx2:
            ten = ten * it.tensor(indices=idx2, return_sympy=True)
            both = idx + idx2
            k2 = r.randint(len(idx2) // 2, len(both))
            rem = rem * NonSymmetricTensor('y', tuple(get_symbols(
                r.sample(both, k2))))
    extra = S.One
    if tdesc.get('denom'):
        # an additional orbital-energy denominator over the intermediate's own
        # indices: after factoring, part of the term's denominator remains
        from adcgen.tensor_names import tensor_names
        from sympy import Add, Pow
        occ_i = [s for s in idx if s[0] in 'ijklmno']
        virt_i = [s for s in idx if s[0] in 'abcdefgh']
        if occ_i and virt_i:
            br = Add(*[NonSymmetricTensor(tensor_names.orb_energy, (q,))
                       for q in get_symbols(occ_i)]) - \
                Add(*[NonSymmetricTensor(tensor_names.orb_energy, (q,))
                      for q in get_symbols(virt_i)])
            extra = Pow(br, -int(tdesc['denom']))
    if tdesc.get('num'):
        # an orbital-energy numerator (left over e.g. after a partial cancellation)
        from adcgen.tensor_names import tensor_names
        pick = r.sample(idx, min(len(idx), int(tdesc['num'])))
        from sympy import Add
        extra = extra * Add(*[NonSymmetricTensor(tensor_names.orb_energy, (q,))
                              for q in get_symbols(pick)])
    return ten * rem * extra * sympify(tdesc['pref'])


def request_for(case, names):
    from adcgen import Intermediates
    itm = Intermediates().available
    req = case['request']
    kw = {}
    if req == 'same':
        kw['types_or_names'] = list(dict.fromkeys(names))
    elif req == 'all':
        kw['types_or_names'] = [n for n in (QUICK_ITMDS if case['tier'] ==
                                            'quick' else THOROUGH_ITMDS)]
    elif req == 'type':
        kw['types_or_names'] = list(dict.fromkeys(
            itm[n].itmd_type for n in names))
        if 're_residual' in kw['types_or_names']:
            kw['types_or_names'].remove('re_residual')
        kw['max_order'] = 2 if case['tier'] == 'quick' else 3
    elif req == 'with_t2_1':
        kw['types_or_names'] = ['t2_1'] + list(dict.fromkeys(names))
    elif req == 'order':
        kw['types_or_names'] = list(dict.fromkeys(names))
        kw['max_order'] = max(itm[n].order for n in names)
    return kw


def _requested(kw):
    """names of the intermediates a factor_intermediates request covers"""
    from adcgen import Intermediates
    itm = Intermediates()
    ton = kw.get('types_or_names')
    if ton is None:
        sel = dict(itm.available)
    else:
        sel = {}
        for t in ([ton] if isinstance(ton, str) else ton):
            sel.update(getattr(itm, t))
    if kw.get('max_order') is not None:
        sel = {n: c for n, c in sel.items() if c.order <= kw['max_order']}
    return set(sel)


def run_case(case, res):
    from adcgen import Expr, factor_intermediates, reduce_expr
    from sympy import Add, S
    from .. import tm
    if case['kind'] == 'repo':
        return run_repo(case, res)
    if case['kind'] == 'pipe':
        return run_pipe(case, res)
    model = definitional_model(case['mseed'], case['tier'])
    ev = tm.Evaluator(model)
    names = [t['itmd'] for t in case['terms']]
    e = Add(*[build_term(t) for t in case['terms']])
    if e == 0:
        res.skip('zero input')
        return
    E = Expr(e, real=True, sym_tensors=['p2', 'p3', 't2sq'])
    terms0 = tm.terms_of(E.sympy.expand())
    tg = tm.einstein_targets(terms0[0])
    if any(tm.einstein_targets(t) != tg for t in terms0):
        res.skip('terms with different targets')
        return
    E.set_target_idx(tg)
    fam = [FAMILY.get(x, x) for x in names]
    anti_used = any(t.get('_anti') for t in case['terms'])
    # F23: a dropped term is a term with prefactor 0 (mixed prefactors)
    tags = ['mixed_prefactors_and_symmetric_remainder'] \
        if anti_used and (case['perturb'] in ('pref', 'drop')
                          or len(set(fam)) < len(fam)) else []
    res.fingerprint = fp(sorted(names), case['request'], case['perturb'],
                         case['once'], [round(t['nlink'], 1)
                                        for t in case['terms']])
    v0 = ev.value(E.sympy, tg)
    observed = {'input': str(E)[:250], 'request': case['request'],
                'perturb': case['perturb']}
    res.observed = observed
    # expand ------------------------------------------------------------------
    X = lib_call(E.copy().expand_intermediates,
                 fully_expand=not case['once']).expand()
    res.count('expand_checked')
    res.count('points_compared', int(v0.size))
    if not np.array_equal(v0, ev.value(X.sympy, tg)):
        res.violation(f'expand_intermediates(fully_expand={not case["once"]}) '
                      f'changed the value: {E}')
        return
    if X.sympy != E.sympy:
        res.nontrivial = True
    observed['expanded_terms'] = len(X)
    # the same expansion of the container with implicit (Einstein) targets: the
    # expanded expression must still have the targets of the input
    Ee = Expr(e, real=True, sym_tensors=['p2', 'p3', 't2sq'])
    Xe = lib_call(Ee.expand_intermediates, fully_expand=not case['once'])
    res.count('einstein_target_expansions')
    for t_ in Xe.terms:
        if set(t_.target) != set(tg):
            res.violation(f'expand_intermediates of {Ee} (implicit targets '
                          f'{[str(q_) for q_ in tg]}) returns a term with the '
                          f'targets {[str(q_) for q_ in t_.target]}: {t_}')
            return
    # factor (on the fully expanded, possibly perturbed expression) -----------
    if any(t.get('twice') for t in case['terms']):
        # products of two expansions: both expansion modes are compared; the
        # reduction of such products takes minutes and is left out
        res.count('product_of_two_expansions')
        X2 = lib_call(E.copy().expand_intermediates,
                      fully_expand=bool(case['once'])).expand()
        if not np.array_equal(v0, ev.value(X2.sympy, tg)):
            res.violation(f'expand_intermediates(fully_expand={case["once"]}) '
                          f'changed the value: {E}')
        return
    Xf = lib_call(E.copy().expand_intermediates).expand()
    xt = list(tm.terms_of(Xf.sympy))
    pr = rng_for(case['pseed'], 'perturb')
    if case['perturb'] == 'pref' and len(xt) >= 2:
        k = pr.randrange(len(xt))
        xt[k] = xt[k] * pr.choice([2, 3, -1])
    elif case['perturb'] == 'drop' and len(xt) >= 2:
        xt.pop(pr.randrange(len(xt)))
    P = Expr(Add(*xt), **Xf.assumptions)
    vp = ev.value(P.sympy, tg)
    kw = request_for(case, names)
    req_ = _requested(kw)
    if any(n_ in names and n_ in req_ for n_ in ('p0_3_oo', 'p0_3_vv')):
        # F29 (open): the third-order density intermediates (symmetric; their
        # expanded definitions hold pairs of alpha-equivalent terms) are factored
        # with wrong weights
        tags = tags + ['p0_3_oo_factored']
    try:
        F = lib_call(factor_intermediates, P.copy(), **kw)
    except Refused:
        res.count('factor_refused')
        F = None
    if F is not None:
        res.count('factor_checked')
        vf = ev.value(F.sympy, tg)
        observed['factored'] = str(F)[:250]
        from adcgen.sympy_objects import SymbolicTensor
        if any(a.name.startswith(('t2', 'p2', 'p3', 't2eri', 't2sq', 't3'))
               or (a.name == 't1' and 't2_1' in names)
               for a in F.sympy.atoms(SymbolicTensor)):
            res.count('refactored')
            res.nontrivial = True
        if not np.array_equal(vp, vf):
            res.violation(
                f'factor_intermediates({kw}) changed the value of the '
                f'{case["perturb"]}-perturbed expansion of {E}: -> '
                f'{str(F)[:400]}', tags)
            return
        # factoring followed by expansion is the identity in value
        B = lib_call(F.copy().expand_intermediates).expand()
        if not np.array_equal(vp, ev.value(B.sympy, tg)):
            res.violation(f'expand(factor(.)) is not the identity in value for '
                          f'{E} (request {kw})', tags)
            return
    return _reduce(case, res, E, v0, ev, tg, observed)


def _reduce(case, res, E, v0, ev, tg, observed):
    from adcgen import reduce_expr
    if case.get('no_reduce'):
        return
    # reduce ------------------------------------------------------------------
    try:
        R = lib_call(reduce_expr, E.copy(),
                     refusals=('NotImplementedError', 'Inputerror',
                               'RuntimeError'))
    except Refused:
        res.count('reduce_refused')
        return
    res.count('reduce_checked')
    observed['reduced_terms'] = len(R)
    if not np.array_equal(v0, ev.value(R.sympy, tg)):
        res.violation(f'reduce_expr changed the value of {E}: -> '
                      f'{str(R)[:400]}')


def run_repo(case, res):
    """the expressions of the repository's factor tests (built the same way)"""
    from adcgen import (Expr, Intermediates, factor_intermediates, get_symbols)
    from sympy import Rational
    from .. import tm
    model = definitional_model(case['mseed'], case['tier'])
    ev = tm.Evaluator(model)
    itm = Intermediates().available
    name = case['name']
    res.fingerprint = fp('repo', name)
    if name == 'repo_t2_1':
        E = itm['t2_1'].expand_itmd(indices='ijab')
        E = Expr(E.sympy * 2, real=True, target_idx='ijab')
        kw = {'types_or_names': ['t2_1']}
        tg = get_symbols('ijab')
    else:
        E = itm['t2_2'].expand_itmd(indices='ijab').expand()
        E = Expr(E.sympy, real=True, target_idx='ijab')
        tg = get_symbols('ijab')
        kw = {'types_or_names': ['t2_2'], 'max_order': 2}
        if name == 'repo_long_mixed':
            terms = list(tm.terms_of(E.sympy))
            terms[0] = terms[0] * 2
            from sympy import Add
            E = Expr(Add(*terms), real=True, target_idx='ijab')
    v0 = ev.value(E.sympy, tg)
    F = lib_call(factor_intermediates, E.copy(), **kw)
    res.count('factor_checked')
    res.count('points_compared', int(v0.size))
    res.nontrivial = len(F) < len(E)
    if res.nontrivial:
        res.count('refactored')
    res.observed = {'case': name, 'terms': len(E), 'factored': str(F)[:300]}
    if not np.array_equal(v0, ev.value(F.sympy, tg)):
        res.violation(f'factor_intermediates({kw}) changed the value for '
                      f'{name}: {str(F)[:400]}')


def run_pipe(case, res):
    """pp-ADC(2) ph/ph -> reduce_expr -> factor_intermediates(max_order=1)"""
    from adcgen import (GroundState, Operators, IntermediateStates,
                        SecularMatrix, Expr, reduce_expr,
                        factor_intermediates, get_symbols)
    from .. import tm
    model = definitional_model(case['mseed'], case['tier'], dims=(2, 2))
    ev = tm.Evaluator(model)
    gs = GroundState(Operators('mp'))
    m = SecularMatrix(IntermediateStates(gs, 'pp'))
    e = 0
    for o in range(3):
        e += m.isr_matrix_block(o, 'ph,ph', 'ia,jb')
    E = Expr(e, real=True, target_idx='ijab')
    E.diagonalize_fock()
    tg = get_symbols('ijab')
    v0 = ev.value(E.sympy, tg)
    R = lib_call(reduce_expr, E.copy())
    res.count('reduce_checked')
    if not np.array_equal(v0, ev.value(R.sympy, tg)):
        res.violation('reduce_expr changed the value of the ADC(2) ph/ph block')
        return
    F = lib_call(factor_intermediates, R.copy(), max_order=1)
    res.count('factor_checked')
    res.count('points_compared', int(v0.size) * 2)
    res.nontrivial = True
    res.fingerprint = fp('pipe')
    res.observed = {'terms': len(E), 'reduced': len(R), 'factored': len(F)}
    if not np.array_equal(v0, ev.value(F.sympy, tg)):
        res.violation('factor_intermediates(max_order=1) changed the value of '
                      'the reduced ADC(2) ph/ph block')
