"""C17 - generated contraction code evaluates to the expression it came from."""
import numpy as np

from ..common import fp, lib_call, rng_for, Refused
from .. import ir

LEVEL = 'translation_validation'
BATCH = 15
CASE_TIMEOUT = 300
RULE = ("generated expressions (single tensors, traces, outer products, nested "
        "contractions, hyper-contractions, deltas, symbols, rational/sqrt "
        "prefactors, (anti)symmetrised copies that trigger permutation operators) x"
        " target strings with/without ',', bra-ket symmetry, (anti)symmetric result"
        " tensor, both backends, optimised/unoptimised scheme, limits; every "
        "emitted program is parsed and executed by an independent interpreter on "
        "tensor-model values and compared with the value of the source expression "
        "on every target assignment in the requested order. A program = one "
        "emitted contraction line. non-trivial: the program holds a contraction "
        "(einsum / contract / dot_product); distinct by (expression shape, "
        "options).")
ASSUMPTIONS = ["index strings tokenise as letter+digits (the documented rule)",
               "emitted names are bound by the harness's reverse naming table "
               "(hf.<block>, hf.f<block>, i_<block>, t<k>_<n>, u[lr]<n>, "
               "<name>_<block>, d_<block> = delta)"]

# square-root prefactors are refused by the library under sympy >= 1.13
# (NotImplementedError: its test `exponent == 0.5` is False for Rational(1, 2));
# they are kept at a low rate so that most cases yield a program
PREFS = ['1', '-1', '2', '1/2', '-1/4', '3/7', '-2/3', '5', '1/3', '-1/2', '3',
         '1', '-1', '2', '1/4', '-3/2', '7/5', 'sqrt(2)', '-sqrt(6)/2']


def floors(tier):
    q = {'programs': 250, 'einsum_cases': 90, 'libtensor_cases': 40,
         'with_permutations': 12, 'nested_programs': 60}
    if tier == 'thorough':
        q = {k: v * 5 for k, v in q.items()}
    return q


def gen_cases(tier, seed):
    from ..gen import ExprGen, CATALOGUE
    import vlib.gen as G
    r = rng_for(seed, 'C17', tier)
    n = 450 if tier == 'quick' else 4000
    cases = []
    cat = [c for c in CATALOGUE if c['name'] not in ('s',)] + \
        [dict(name='t1cc', t='amp', nu=2, nl=2, rule='amp', w=1),
         dict(name='t3', t='amp', nu=1, nl=1, rule='amp', w=1),
         dict(name='p2', t='anti', nu=1, nl=1, rule='any', w=1),
         # amplitude vectors of the other ADC variants (block number in the name)
         dict(name='X', t='amp', nu=1, nl=2, rule='amp', w=1),
         dict(name='Y', t='amp', nu=0, nl=2, rule='amp', w=1),
         dict(name='Y', t='amp', nu=2, nl=0, rule='amp', w=1),
         dict(name='X', t='amp', nu=0, nl=1, rule='amp', w=1),
         dict(name='Y', t='amp', nu=1, nl=3, rule='amp', w=1),
         dict(name='X', t='amp', nu=2, nl=1, rule='amp', w=1)]
    saved = list(G.PREFS)
    G.PREFS[:] = PREFS
    try:
        for k in range(n):
            known = k >= n - 12      # F9 bucket: delta and tensor d together
            names = None
            if not known:
                names = [c['name'] for c in cat if c['name'] != 'd'] \
                    if r.random() < 0.5 else None
            g = ExprGen(r, cat, general=r.choice([0.0, 0.1, 0.25]),
                        exponents=0.1, hyper=r.choice([0.0, 0.0, 0.15]),
                        symbols=0.1, max_pool=r.choice([4, 6]))
            first = g.term(nobj=r.choice([1, 1, 2, 2, 3, 3, 4]), names=names)
            if first is None:
                continue
            has_d = any(o.get('name') == 'd' for o in first['objs'])
            tg = ir.term_targets(first)
            terms = [first]
            if r.random() < 0.5 and len(tg) >= 2:
                cand = [(p_, q_) for p_ in tg for q_ in tg if p_ < q_ and
                        ir.index_space(p_) == ir.index_space(q_)]
                if cand:
                    p_, q_ = r.choice(cand)
                    y = ir.rename_term(first, {p_: q_, q_: p_})
                    y['pref'] = f"({first['pref']})*({r.choice(['1', '-1'])})"
                    terms.append(y)
            for _t in range(r.choice([0, 0, 1, 2])):
                t2 = g.term(targets=tg, nobj=r.randint(1, 3),
                            names=names)
                if t2 is not None:
                    terms.append(t2)
            # deltas (not together with a tensor d, except in the F9 bucket)
            any_d = any(o.get('name') == 'd' for t in terms for o in t['objs'])
            if (known or not any_d) and r.random() < (1.0 if known else 0.25):
                t = r.choice(terms)
                idxs = sorted(ir.term_indices(t))
                a = r.choice(idxs)
                same = [s for s in idxs if s != a and
                        ir.index_space(s) == ir.index_space(a)]
                if same:
                    t['objs'].append({'t': 'delta', 'up': [a, r.choice(same)]})
                    if sorted(ir.term_targets(t)) != sorted(tg):
                        t['objs'].pop()
            if known and not any_d:
                t = terms[0]
                idxs = sorted(ir.term_indices(t))
                t['objs'].append({'t': 'anti', 'name': 'd',
                                  'up': [r.choice(idxs)], 'lo': [r.choice(idxs)],
                                  'bk': 0})
                tg2 = ir.term_targets(t)
                if sorted(tg2) != sorted(tg):
                    continue
            order = list(tg)
            r.shuffle(order)
            opts = {'anti': r.random() < 0.6, 'split': None, 'bk': 0,
                    'backend': r.choice(['einsum', 'einsum', 'libtensor']),
                    'optimize': r.random() < 0.8, 'kw': {}}
            if r.random() < 0.4 and len(order) >= 2:
                kk = r.randint(1, len(order) - 1)
                opts['split'] = kk
                if kk == len(order) - kk and \
                        [ir.index_space(s) for s in order[:kk]] == \
                        [ir.index_space(s) for s in order[kk:]] and \
                        r.random() < 0.5:
                    opts['bk'] = r.choice([1, -1])
            if opts['optimize'] and r.random() < 0.2:
                opts['kw']['max_itmd_dim'] = r.randint(2, 6)
            if opts['optimize'] and r.random() < 0.2:
                opts['kw']['max_n_simultaneous_contracted'] = r.randint(2, 4)
            allspin = None
            dims = list(r.choice([(2, 2), (2, 3), (3, 2)]))
            if not known and r.random() < 0.1 and order:
                # every index alpha (or beta): spin-labelled targets (target_spin)
                allspin = r.choice('ab')
                if r.random() < 0.5:
                    opts['optimize'] = False
                    opts['kw'] = {}
                allidx = {s_ for t_ in terms for s_ in ir.term_indices(t_)}
                mp_ = {s_: s_ + ':' + allspin for s_ in allidx}
                terms = [ir.rename_term(t_, mp_) for t_ in terms]
                order = [mp_[s_] for s_ in order]
                dims = [4, 4]
            cases.append({'id': f'C17-{tier[0]}{seed}-{k:05d}'
                                + ('-kf' if known else ''),
                          'terms': terms, 'order': order, 'opts': opts,
                          'allspin': allspin,
                          'mseed': r.randrange(1 << 30), 'dims': dims})
    finally:
        G.PREFS[:] = saved
    # spin-labelled targets with the unoptimised scheme (target_spin has to reach
    # both scheme builders)
    r4 = rng_for(seed, 'C17-spin', tier)
    for q in range(8 if tier == 'quick' else 40):
        sp_ = r4.choice('ab')
        S = lambda x_: x_ + ':' + sp_      # noqa: E731
        shape = r4.choice(['mm', 'mm', 'outer', 'vec'])
        if shape == 'mm':
            objs = [{'t': 'non', 'name': 'x', 'up': [S('i'), S('k')]},
                    {'t': 'non', 'name': 'y', 'up': [S('k'), S('j')]}]
            order = [S('j'), S('i')]
        elif shape == 'outer':
            objs = [{'t': 'non', 'name': 'x', 'up': [S('i'), S('a')]},
                    {'t': 'non', 'name': 'y', 'up': [S('j'), S('b')]}]
            order = r4.choice([[S('i'), S('a'), S('j'), S('b')],
                               [S('b'), S('j'), S('a'), S('i')]])
        else:
            objs = [{'t': 'non', 'name': 'z', 'up': [S('i')]},
                    {'t': 'non', 'name': 'x', 'up': [S('i'), S('a')]}]
            order = [S('i'), S('a')]
        cases.append({'id': f'C17-{tier[0]}{seed}-spin{q:03d}',
                      'terms': [{'pref': r4.choice(['1', '-2']), 'objs': objs}],
                      'order': order, 'allspin': sp_,
                      'opts': {'anti': False, 'split': None, 'bk': 0,
                               'backend': r4.choice(['einsum', 'libtensor']),
                               'optimize': q % 2 == 1, 'kw': {}},
                      'mseed': r4.randrange(1 << 30), 'dims': [4, 4]})
    # two permutations that map a term onto the same partner: x_ia x_jb - x_ja x_ib
    r3 = rng_for(seed, 'C17-samepartner', tier)
    for q in range(10 if tier == 'quick' else 60):
        nm = r3.choice(['x', 'y'])
        sg = r3.choice(['-1', '-1', '1'])
        t0 = [{'t': 'non', 'name': nm, 'up': ['i', 'a']},
              {'t': 'non', 'name': nm, 'up': ['j', 'b']}]
        t1 = [{'t': 'non', 'name': nm, 'up': ['j', 'a']},
              {'t': 'non', 'name': nm, 'up': ['i', 'b']}]
        if r3.random() < 0.4:
            extra = {'t': 'non', 'name': 'z', 'up': ['k', 'k']}
            t0.append(dict(extra))
            t1.append(dict(extra))
        pf = r3.choice(['1', '2', '1/2'])
        order = r3.choice([['i', 'j', 'a', 'b'], ['i', 'a', 'j', 'b'],
                           ['a', 'b', 'i', 'j']])
        cases.append({'id': f'C17-{tier[0]}{seed}-samepartner{q:03d}',
                      'terms': [{'pref': pf, 'objs': t0},
                                {'pref': f'({pf})*({sg})', 'objs': t1}],
                      'order': order,
                      'opts': {'anti': sg == '-1', 'split': r3.choice([None, 2]),
                               'bk': 0,
                               'backend': r3.choice(['einsum', 'libtensor']),
                               'optimize': r3.random() < 0.7, 'kw': {}},
                      'mseed': r3.randrange(1 << 30), 'dims': [2, 3]})
    # an inner contraction that already carries every target index (the rest of
    # the term are traces / scalars), non-canonical target orders
    r2 = rng_for(seed, 'C17-inner', tier)
    for q in range(14 if tier == 'quick' else 120):
        shape = r2.choice(['chain', 'chain', 'mixed'])
        if shape == 'chain':
            objs = [{'t': 'non', 'name': 'x', 'up': ['i', 'j']},
                    {'t': 'non', 'name': 'y', 'up': ['j', 'k']}]
            order = ['k', 'i']
        else:
            objs = [{'t': 'non', 'name': 'x', 'up': ['i', 'k', 'a', 'c']},
                    {'t': 'non', 'name': 'y', 'up': ['j', 'k', 'b', 'c']}]
            order = r2.choice([['i', 'a', 'j', 'b'], ['b', 'j', 'a', 'i'],
                               ['a', 'b', 'i', 'j'], ['j', 'a', 'i', 'b']])
        for _ in range(r2.choice([1, 1, 2])):
            tr = r2.choice([{'t': 'non', 'name': 'z', 'up': ['l', 'l']},
                            {'t': 'anti', 'name': 'f', 'up': ['m'], 'lo': ['m'],
                             'bk': 0},
                            {'t': 'anti', 'name': 'f', 'up': ['d'], 'lo': ['d'],
                             'bk': 0}])
            if tr not in objs:
                objs.append(tr)
        if r2.random() < 0.3:
            r2.shuffle(order)
        cases.append({'id': f'C17-{tier[0]}{seed}-inner{q:03d}',
                      'terms': [{'pref': r2.choice(['1', '-2', '1/2']),
                                 'objs': objs}],
                      'order': order,
                      'opts': {'anti': False, 'split': None, 'bk': 0,
                               'backend': r2.choice(['einsum', 'einsum',
                                                     'libtensor']),
                               'optimize': True, 'kw': {}},
                      'mseed': r2.randrange(1 << 30), 'dims': [2, 3]})
    # fixed exhibit of the open finding F9: delta_ij d^a_b + d^i_j delta_ab
    dten = lambda p_, q_: {'t': 'anti', 'name': 'd', 'up': [p_], 'lo': [q_],  # noqa: E731,E501
                           'bk': 0}
    cases.append({'id': f'C17-{tier[0]}{seed}-F9-exhibit-kf',
                  'terms': [{'pref': '1', 'objs': [{'t': 'delta',
                                                    'up': ['i', 'j']},
                                                   dten('a', 'b')]},
                            {'pref': '1', 'objs': [dten('i', 'j'),
                                                   {'t': 'delta',
                                                    'up': ['a', 'b']}]}],
                  'order': ['i', 'j', 'a', 'b'],
                  'opts': {'anti': False, 'split': None, 'bk': 0,
                           'backend': 'einsum', 'optimize': True, 'kw': {}},
                  'mseed': 4711, 'dims': [2, 3]})
    return cases


def catalogue_of(terms):
    cat = {}
    for t in terms:
        for o in t['objs']:
            if o['t'] in ('anti', 'sym', 'amp', 'non'):
                kind = o['t']
                n = len(o.get('up', [])) + len(o.get('lo', []))
                ent = cat.setdefault(o['name'], (kind, {}))
                ent[1][n] = len(o.get('up', []))
    return cat


def _tags(case):
    has_delta = any(o['t'] == 'delta' for t in case['terms'] for o in t['objs'])
    has_d = any(o.get('name') == 'd' and o['t'] != 'delta'
                for t in case['terms'] for o in t['objs'])
    return ['delta_and_tensor_named_d'] if has_delta and has_d else []


def run_case(case, res):
    from adcgen import Expr, generate_code
    from .. import tm, codeinterp
    e = ir.mk_expr(case['terms']).expand()
    if e == 0:
        res.skip('zero input')
        return
    E = Expr(e)
    o = case['opts']
    order = [ir.mk_index(s) for s in case['order']]
    names = [ir.split_index(s)[0] for s in case['order']]
    spin_of = {ir.split_index(s_)[0]: ir.split_index(s_)[1]
               for t_ in case['terms'] for s_ in ir.term_indices(t_)}
    tstr = ''.join(names)
    if o['split']:
        tstr = ''.join(names[:o['split']]) + ',' + ''.join(names[o['split']:])
    kw = dict(target_indices=tstr, bra_ket_sym=o['bk'],
              antisymmetric_result_tensor=o['anti'], backend=o['backend'],
              optimize_contraction_scheme=o['optimize'], **o['kw'])
    if case.get('allspin'):
        kw['target_spin'] = case['allspin'] * len(names)
    tags = _tags(case)
    n_o, n_v = case['dims']
    model = tm.Model(n_o, n_v, seed=case['mseed'],
                     spin=bool(case.get('allspin')))
    ev = tm.Evaluator(model)
    res.fingerprint = fp(_shape(case['terms']), len(order), o['backend'],
                         case.get('allspin'),
                         o['optimize'], o['anti'], o['bk'], bool(o['split']),
                         sorted(o['kw'].items()))
    try:
        code = lib_call(generate_code, E, tags=tags,
                        refusals=('NotImplementedError', 'Inputerror',
                                  'RuntimeError'), **kw)
    except Refused as ex:
        res.count('refused')
        res.count('refused_' + str(ex).split(':')[0])
        res.observed = {'input': str(E)[:200], 'kwargs': kw,
                        'result': str(ex)[:120]}
        return
    has_delta = any(ob['t'] == 'delta' for t in case['terms']
                    for ob in t['objs'])
    binder = codeinterp.Binder(model, catalogue_of(case['terms']), has_delta,
                               spins=spin_of if case.get('allspin') else None)
    interp = codeinterp.Interpreter(binder, o['backend'], model.F)
    ref = ev.value(E.sympy, order)
    res.observed = {'input': str(E)[:300], 'kwargs': kw, 'code': code[:600]}
    try:
        got = interp.run(code, names)
    except codeinterp.InterpError as ex:
        if 'AMBIGUOUS' in str(ex):
            res.violation(f'generate_code({E}, {kw}) emits the same name for a '
                          f'KroneckerDelta and the tensor d: {code[:300]}', tags)
            return
        res.violation(f'the emitted program can not be executed: {ex}; '
                      f'generate_code({E}, {kw}) =\n{code[:500]}', tags)
        return
    res.count('programs', interp.programs)
    res.count(f'{o["backend"]}_cases')
    if 'P_' in code:
        res.count('with_permutations')
    nested = code.count('einsum(') + code.count('contract(') + \
        code.count('dot_product(')
    if nested:
        res.count('nested_programs', nested)
    res.nontrivial = nested > 0
    if not np.array_equal(got, ref):
        res.count('disagreements_checked')
        m2 = model.derive(p=tm.PRIMES[1])
        b2 = codeinterp.Binder(m2, catalogue_of(case['terms']), has_delta)
        g2 = codeinterp.Interpreter(b2, o['backend'], m2.F).run(code, names)
        if not np.array_equal(g2, tm.Evaluator(m2).value(E.sympy, order)):
            res.violation(f'the emitted program does not evaluate to the '
                          f'expression: generate_code({E}, {kw}) =\n{code[:700]}',
                          tags)


def _shape(terms):
    out = []
    for t in terms:
        names = {}
        row = []
        for ob in t['objs']:
            lab = []
            for s in ir.obj_index_list(ob):
                names.setdefault(s, len(names))
                lab.append(names[s])
            row.append((ob['t'], ob.get('name', ''), tuple(lab),
                        ob.get('exp', 1)))
        out.append(sorted(map(str, row)))
    return sorted(out)
