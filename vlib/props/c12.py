"""C12 - registered intermediate definitions equal the quantities they name."""
import itertools

import numpy as np

from ..common import fp, lib_call, rng_for

LEVEL = 'exploration'
BATCH = 1
CASE_TIMEOUT = 1800
RULE = ("every registered intermediate (25) x {fully, once} expanded x index "
        "tuples (default, renamed incl. names that collide with the definition's "
        "internal index names, numbered names) evaluated on all index assignments"
        " of a model Hamiltonian and compared with: explicit RSPT amplitude "
        "coefficients (t*_n), explicit one-particle density coefficients (p0_n_*), "
        "the residuals derived by GroundState(re) (random amplitudes, f_ov != 0), "
        "independently written einsum contractions (t2eri_*, t2sq); plus every "
        "declared tensor symmetry on the value array and every spin block not "
        "declared allowed on a spin-structured model. non-trivial: reference array"
        " non-zero; distinct by (intermediate, expansion, index tuple, model).")
ASSUMPTIONS = ["canonical real model Hamiltonian for MP quantities",
               "t2eri_n / t2sq references transcribed from the definitions the "
               "docstrings name (adcc / libadc pi1..pi7, t2sq)"]

AMPS = {'t2_1': (1, 2), 't1_2': (2, 1), 't2_2': (2, 2), 't3_2': (2, 3),
        't4_2': (2, 4), 't1_3': (3, 1), 't2_3': (3, 2)}
DENS = {'p0_2_oo': (2, 'oo'), 'p0_2_vv': (2, 'vv'), 'p0_3_oo': (3, 'oo'),
        'p0_3_ov': (3, 'ov'), 'p0_3_vv': (3, 'vv')}
RES = {'t2_1_re_residual': (1, 'pphh'), 't1_2_re_residual': (2, 'ph'),
       't2_2_re_residual': (2, 'pphh')}
MISC = ['t2eri_1', 't2eri_2', 't2eri_3', 't2eri_4', 't2eri_5', 't2eri_6',
        't2eri_7', 't2eri_A', 't2eri_B', 't2sq']
OCC = ['i', 'j', 'k', 'l', 'm', 'n', 'o', 'i1', 'k2', 'j7']
VIRT = ['a', 'b', 'c', 'd', 'e', 'f', 'g', 'a1', 'c2', 'b7']


def floors(tier):
    return {'definitions_checked': 60, 'points_compared': 3000,
            'nonzero_reference_points': 500, 'symmetries_checked': 30,
            'spin_blocks_checked': 40}


def gen_cases(tier, seed):
    r = rng_for(seed, 'C12', tier)
    cases = []

    def names_for(default, variant):
        if variant == 'default':
            return list(default)
        out = []
        for d in default:
            pool = OCC if d[0] in 'ijklmno' else VIRT
            out.append(r.choice([s for s in pool if s not in out]))
        return out
    allnames = list(AMPS) + list(DENS) + list(RES) + MISC
    for name in allnames:
        heavy = name in ('t4_2', 't2_3', 'p0_3_oo', 'p0_3_ov', 'p0_3_vv',
                         't1_3', 't3_2')
        for fully in (True, False):
            variants = ['default', 'renamed', 'shift1', 'shift2', 'shift3'] \
                if not heavy or not fully else ['default', 'shift2']
            if tier == 'thorough':
                variants = variants + ['renamed'] * 3
            if not heavy or not fully:
                # target names taken from the not yet handed out part of the
                # current generation of generic names, after an earlier expansion
                variants = variants + ['pending']
            for v in variants:
                if name == 't4_2':
                    dims = (4, 4) if tier == 'thorough' else (2, 2)
                elif name in ('t3_2', 't2_3', 't1_3', 'p0_3_oo', 'p0_3_ov',
                              'p0_3_vv'):
                    dims = (3, 3)   # triples must exist
                else:
                    dims = r.choice([(3, 3), (2, 3), (3, 2)]) \
                        if name not in MISC else r.choice([(2, 2), (2, 3),
                                                           (3, 2)])
                cases.append({'id': f'C12-{tier[0]}{seed}-{len(cases):03d}-'
                                    f'{name}-{"full" if fully else "once"}-{v}',
                              'name': name, 'fully': fully, 'variant': v,
                              'dims': list(dims), 'kind': 'value',
                              'mseed': r.randrange(1 << 30),
                              'hseed': r.randrange(1 << 30),
                              'cost': 200 if heavy and fully else 20})
    for name in allnames:
        cases.append({'id': f'C12-{tier[0]}{seed}-{len(cases):03d}-{name}-sym',
                      'name': name, 'kind': 'sym', 'dims': [2, 2],
                      'mseed': r.randrange(1 << 30),
                      'cost': 100 if name in ('t4_2', 't2_3') else 20})
    return cases


def index_names(case):
    from adcgen import Intermediates
    it = Intermediates().available[case['name']]
    default = list(it.default_idx)
    if case['variant'] == 'default':
        return default
    if case['variant'] == 'pending':
        # an earlier expansion has generated (and partly used) a generation of
        # generic names i<n>, j<n>, ...; one more generic index per space is drawn
        # through the public registry, the target names are the following letters
        # of the same generation (legal names that are still pending there)
        from adcgen.indices import Indices
        lib_call(Intermediates().available['t1_2'].expand_itmd)
        g = Indices().get_generic_indices(occ=1, virt=1)
        cur = {'o': g[('occ', '')][0].name, 'v': g[('virt', '')][0].name}
        out = []
        for d in default:
            sp, letters = ('o', 'ijklmno') if d[0] in 'ijklmno' else \
                ('v', 'abcdefgh')
            base, num = cur[sp][0], cur[sp][1:] or '1'
            cands = [c + num for c in letters[letters.index(base) + 1:]] + \
                [c + str(int(num) + 1) for c in letters]
            out.append(next(c for c in cands if c not in out))
        return out
    if case['variant'].startswith('shift'):
        # names taken from the low end of the alphabet, shifted: these collide
        # with the internal contracted index names of the definitions
        k = int(case['variant'][5:])
        out = []
        no = nv = 0
        for d in default:
            if d[0] in 'ijklmno':
                out.append('ijklmno'[(no + k) % 7])
                no += 1
            else:
                out.append('abcdefgh'[(nv + k) % 8])
                nv += 1
        return out
    r = rng_for(case['hseed'], 'idx')
    out = []
    for d in default:
        pool = OCC if d[0] in 'ijklmno' else VIRT
        out.append(r.choice([s for s in pool if s not in out]))
    return out


def run_case(case, res):
    if case['kind'] == 'sym':
        return run_sym(case, res)
    from adcgen import Intermediates, get_symbols, Expr
    from .. import tm, gsref
    name = case['name']
    it = Intermediates().available[name]
    idx = index_names(case)
    tgt = get_symbols(idx)
    n_o, n_v = case['dims']
    res.fingerprint = fp(name, case['fully'], case['variant'] == 'default',
                         case['dims'])
    expr = lib_call(it.expand_itmd, indices=idx, fully_expand=case['fully'])
    observed = {'intermediate': name, 'indices': ''.join(idx),
                'fully_expand': case['fully'], 'model': case['dims']}
    res.observed = observed
    if name in AMPS or name in DENS:
        order = AMPS[name][0] if name in AMPS else DENS[name][0]
        ref = None
        mseed = case['mseed']
        for _ in range(5):
            try:
                ref = gsref.GSRef('mp', False, n_o, n_v, mseed, order)
                break
            except (ZeroDivisionError, tm.ModelUnusable):
                mseed += 1
        if ref is None:
            res.skip('no usable model')
            return
        p = ref.p
        val = ref.ev.value(Expr(expr.sympy, real=True).sympy, tgt)
        if name in AMPS:
            exp = ref.amp_block(*AMPS[name]) % p
        else:
            exp = _density(ref, DENS[name][0], DENS[name][1])
    elif name in RES:
        from adcgen import GroundState, Operators
        order, space = RES[name]
        gs = GroundState(Operators('re'), False)
        derived = lib_call(gs.amplitude_residual, order, space, ''.join(idx))
        model = tm.Model(n_o, n_v, seed=case['mseed'], sym={'V': 1, 'f': 1},
                         alias={f't{n}cc': f't{n}' for n in range(1, 4)})
        ev = tm.Evaluator(model)
        p = model.p
        val = ev.value(Expr(expr.sympy, real=True).sympy, tgt)
        exp = ev.value(Expr(derived, real=True).sympy, tgt)
    else:
        ref = None
        mseed = case['mseed']
        for _ in range(5):
            try:
                ref = gsref.GSRef('mp', False, n_o, n_v, mseed, 1)
                break
            except (ZeroDivisionError, tm.ModelUnusable):
                mseed += 1
        if ref is None:
            res.skip('no usable model')
            return
        p = ref.p
        ev = ref.ev
        if not case['fully'] and name in ('t2eri_A', 't2eri_B'):
            # once expanded: the lower intermediates take their definitional
            # values (the harness's own einsum references)
            N = ref.N
            o, v = np.arange(n_o), np.arange(n_o, N)
            ex = {}
            for low, blk_, key in (('t2eri_1', 'ooov', ('t2eri1', 2, 2)),
                                   ('t2eri_2', 'ooov', ('t2eri2', 4, 0)),
                                   ('t2eri_6', 'ovvv', ('t2eri6', 2, 2)),
                                   ('t2eri_7', 'ovvv', ('t2eri7', 4, 0))):
                full = np.zeros((N,) * 4, dtype=np.int64)
                full[np.ix_(*[o if c == 'o' else v for c in blk_])] = \
                    _misc_reference(low, ref)
                ex[key] = full
            ev = tm.Evaluator(ref.with_explicit(ex))
        val = ev.value(Expr(expr.sympy, real=True).sympy, tgt)
        exp = _misc_reference(name, ref)
    nz = int(np.count_nonzero(exp))
    res.count('definitions_checked')
    res.count('points_compared', int(exp.size))
    res.count('nonzero_reference_points', nz)
    res.nontrivial = nz > 0
    observed.update(terms=_nterms(expr), points=int(exp.size), nonzero=nz)
    if val.shape != exp.shape or not np.array_equal(val % p, exp % p):
        bad = np.argwhere(val % p != exp % p) if val.shape == exp.shape else [[]]
        res.violation(f'intermediate {name}.expand_itmd(indices={"".join(idx)}, '
                      f'fully_expand={case["fully"]}) differs from the quantity '
                      f'it names at {len(bad)} of {exp.size} points (model '
                      f'{case["dims"]})')


def _density(ref, order, block):
    """coefficient `order` of <Psi|p+ q|Psi>/<Psi|Psi> on the requested block"""
    from ..fock import Series
    fs, p = ref.fs, ref.p
    S = Series(fs, order)
    psi = [dict(v) for v in ref.rspt.psi[:order + 1]]
    inv = S.sinv(S.dot(psi, psi))
    doms = {'o': fs.occ, 'v': fs.virt}
    rows, cols = doms[block[0]], doms[block[1]]
    out = np.zeros((len(rows), len(cols)), dtype=np.int64)
    for a, pp in enumerate(rows):
        for b, qq in enumerate(cols):
            w = [fs.apply_ops([('c', pp), ('a', qq)], v) if v else {}
                 for v in psi]
            num = S.dot(psi, w)
            out[a, b] = S.smul(num, inv)[order] % p
    return out


def _misc_reference(name, ref):
    """t2eri_n / t2sq written independently as einsum over model arrays; the
    first-order doubles t^{ab}_{ij} (stored [i, j, a, b]) are the explicit RSPT
    coefficients"""
    model = ref.model
    p = model.p
    o = np.arange(model.n_o)
    v = np.arange(model.n_o, model.N)
    V = ref.V
    t2 = ref.amp_block(1, 2) % p

    def blk(s):
        return V[np.ix_(*[o if c == 'o' else v for c in s])]

    def ES(spec, *a):
        return np.einsum(spec, *[x.astype(object) for x in a]) % p
    half = model.F.inv(2)
    refs = {}
    refs['t2eri_1'] = ES('ijbc,kabc->ijka', t2, blk('ovvv'))
    refs['t2eri_2'] = ES('ilab,lkjb->ijka', t2, blk('ooov'))
    refs['t2eri_3'] = ES('klab,ijkl->ijab', t2, blk('oooo'))
    refs['t2eri_4'] = ES('jkac,kbic->ijab', t2, blk('ovov'))
    refs['t2eri_5'] = ES('ijcd,abcd->ijab', t2, blk('vvvv'))
    refs['t2eri_6'] = ES('jkbc,jkia->iabc', t2, blk('ooov'))
    refs['t2eri_7'] = ES('ijbd,jcad->iabc', t2, blk('ovvv'))
    refs['t2sq'] = ES('ikac,jkbc->iajb', t2, t2)
    refs['t2eri_A'] = (refs['t2eri_1'] * half + refs['t2eri_2']
                       - np.transpose(refs['t2eri_2'], (1, 0, 2, 3))) % p
    refs['t2eri_B'] = (-refs['t2eri_6'] * half + refs['t2eri_7']
                       - np.transpose(refs['t2eri_7'], (0, 1, 3, 2))) % p
    return np.asarray(refs[name] % p, dtype=np.int64)


def run_sym(case, res):
    """declared tensor symmetry and allowed spin blocks hold for the value"""
    from adcgen import Intermediates, get_symbols, Expr
    from .. import tm
    from .c15 import SpinModel
    name = case['name']
    it = Intermediates().available[name]
    idx = list(it.default_idx)
    tgt = get_symbols(idx)
    res.fingerprint = fp(name, 'sym')
    if name in RES:
        # the registered tensor is a placeholder for zero
        res.nontrivial = True
        res.observed = {'intermediate': name, 'note': 'residual (tensor = 0)'}
        return
    big = name in ('t4_2',)
    sm = SpinModel(1, 1, case['mseed']) if len(idx) >= 8 else \
        SpinModel(2, 2, case['mseed']) if len(idx) <= 4 else \
        SpinModel(2, 2, case['mseed'])
    if name in ('t3_2',):
        sm = SpinModel(2, 2, case['mseed'])
    expr = lib_call(it.expand_itmd, indices=idx, fully_expand=True)
    E = Expr(expr.sympy, real=True)
    try:
        full = sm.ev.value(E.sympy, tgt)
    except tm.ModelUnusable:
        res.skip('model unusable')
        return
    p = sm.model.p
    sym = lib_call(lambda: it.tensor_symmetry)
    n = 0
    for perms, fac in sym.items():
        n += 1
        a2 = full
        for p_, q_ in perms:
            a2 = np.swapaxes(a2, tgt.index(p_), tgt.index(q_))
        if not np.array_equal(a2, (fac * full) % p):
            res.violation(f'intermediate {name}: the declared symmetry {perms} '
                          f'({fac}) of its tensor does not hold for the value of '
                          f'its definition')
            return
    res.count('symmetries_checked', n)
    allowed = lib_call(lambda: it.allowed_spin_blocks)
    nb = 0
    for spins in (''.join(q) for q in itertools.product('ab',
                                                        repeat=len(idx))):
        if spins in allowed:
            continue
        nb += 1
        if np.any(sm.block(full, tgt, spins)):
            res.violation(f'intermediate {name}: spin block {spins} is not in '
                          f'allowed_spin_blocks {allowed} but its definition is '
                          f'non-zero on it')
            return
    res.count('spin_blocks_checked', nb)
    res.nontrivial = bool(np.any(full))
    res.observed = {'intermediate': name, 'symmetries': len(sym),
                    'allowed': list(allowed), 'forbidden_checked': nb}


def _nterms(expr):
    from sympy import Add
    e = expr.sympy.expand()
    return len(e.args) if isinstance(e, Add) else int(e != 0)
