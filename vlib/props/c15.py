"""C15 - spin integration yields exactly the requested spin block.

Spin-structured model: spin orbital = (spatial function, sigma). V is antisymmetrised
from an 8-fold symmetric Coulomb array with spin deltas (forbidden blocks vanish by
construction, not by table), t-amplitudes are random but zero on non-spin-conserving
blocks, f and deltas are spin diagonal, the Coulomb tensor is v^{pr}_{qs} = (pr|qs)."""
import itertools

import numpy as np

from ..common import fp, lib_call, rng_for, Refused
from .. import ir

LEVEL = 'exploration'
BATCH = 6
CASE_TIMEOUT = 600
RULE = ("generated spin-orbital expressions of V, f, t-amplitudes (singles, "
        "doubles, several orders), deltas, symbolic denominators and registered "
        "intermediates, 1-3 terms, <= 4 target indices; for every target spin "
        "string (quick: up to 6 sampled) x expand_eri on/off x unrestricted / "
        "restricted the output of transform_to_spatial_orbitals is compared on "
        "every spatial assignment with the input evaluated on the spin orbitals of"
        " the requested spins; allowed_spin_blocks(expr): every block not reported "
        "must evaluate to zero. non-trivial: reference block non-zero; distinct by"
        " (expression shape, spin string, flags).")
ASSUMPTIONS = [
    "restricted: checked in a model whose tensors depend on the spatial functions "
    "only on all their allowed blocks (alpha and beta tensors coincide); with "
    "expand_eri=False the ERI itself is given that structure",
    "every term holds >= 1 object of known spin structure (the property's list: "
    "integrals, amplitudes, deltas, intermediates, symbolic denominators)",
]

CAT = [
    dict(name='V', t='anti', nu=2, nl=2, rule='any', w=5),
    dict(name='f', t='anti', nu=1, nl=1, rule='any', w=2),
    dict(name='t1', t='amp', nu=2, nl=2, rule='amp', w=3),
    dict(name='t2', t='amp', nu=1, nl=1, rule='amp', w=2),
    dict(name='t2', t='amp', nu=2, nl=2, rule='amp', w=2),
    dict(name='t1cc', t='amp', nu=2, nl=2, rule='amp', w=1),
    # tensors of unknown spin structure (only next to a known one)
    dict(name='x', t='non', nu=2, nl=0, rule='any', w=1),
    dict(name='y', t='non', nu=3, nl=0, rule='any', w=1),
]


def floors(tier):
    q = {'integrations_checked': 300, 'nonzero_reference_blocks': 80,
         'restricted_checked': 40, 'allowed_blocks_checked': 40,
         'forbidden_blocks_zero': 60}
    if tier == 'thorough':
        q = {k: v * 5 for k, v in q.items()}
    return q


def gen_cases(tier, seed):
    from ..gen import ExprGen
    r = rng_for(seed, 'C15', tier)
    n = 170 if tier == 'quick' else 1300
    cases = []
    for k in range(n):
        g = ExprGen(r, CAT, general=0.0, exponents=0.05, hyper=0.0, symbols=0.05,
                    max_pool=5)
        first = g.term(nobj=r.choice([1, 2, 2, 3, 3, 4]))
        if first is None:
            continue
        tg = ir.term_targets(first)
        if len(tg) > 4:
            continue
        terms = [first]
        for _ in range(r.choice([0, 0, 1, 2])):
            t2 = g.term(targets=tg, nobj=r.randint(1, 3))
            if t2 is not None:
                terms.append(t2)
        for t in terms:
            idxs = sorted(ir.term_indices(t))
            if r.random() < 0.2:
                a = r.choice(idxs)
                same = [s for s in idxs if s != a and
                        ir.index_space(s) == ir.index_space(a)]
                if same:
                    t['objs'].append({'t': 'delta', 'up': [a, r.choice(same)]})
                    if sorted(ir.term_targets(t)) != sorted(tg):
                        t['objs'].pop()
            occ = [s for s in idxs if s[0] in 'ijklmno']
            virt = [s for s in idxs if s[0] in 'abcdefgh']
            if r.random() < 0.2 and occ and virt:
                no = nv = r.randint(1, min(2, len(occ), len(virt)))
                e = [['1', s] for s in r.sample(occ, no)] + \
                    [['-1', s] for s in r.sample(virt, nv)]
                t['objs'].append({'t': 'br', 'e': e, 'exp': -1})
        # every term needs >= 1 object of known spin structure (a term of
        # objects with unknown spin blocks only is outside the property's list)
        def known(t):
            return any(o['t'] == 'delta' or o.get('name') in
                       ('V', 'f', 't1', 't2', 't1cc') for o in t['objs'])
        terms = [t for t in terms if known(t)]
        if not terms:
            continue
        order = list(tg)
        r.shuffle(order)
        allspins = [''.join(p) for p in itertools.product('ab',
                                                          repeat=len(order))]
        if tier == 'quick' and len(allspins) > 6:
            allspins = r.sample(allspins, 6)
        cases.append({'id': f'C15-{tier[0]}{seed}-{k:05d}', 'kind': 'gen',
                      'terms': terms, 'order': order, 'spins': allspins,
                      # explicit denominators are refused by the library's
                      # simplify (NotImplementedError): use symbolic ones
                      'symbolic': any(o['t'] == 'br' for t in terms
                                      for o in t['objs']),
                      'mseed': r.randrange(1 << 30), 'cost': len(allspins)})
    # chains of 3-4 objects in which the search for a consistent spin assignment
    # has to give up a first choice (all spin strings)
    def anti(name, up, lo):
        return {'t': 'anti', 'name': name, 'up': list(up), 'lo': list(lo),
                'bk': 0}
    fixed = [
        ([{'t': 'amp', 'name': 't1', 'up': ['a', 'b'], 'lo': ['j', 'l']},
          anti('V', 'jd', 'ef'), anti('f', 'a', 'd'), anti('f', 'k', 'b')],
         ['e', 'f', 'k', 'l']),
        ([anti('V', 'ij', 'ac'), anti('V', 'ik', 'jl'), anti('V', 'kl', 'mn')],
         ['a', 'c', 'm', 'n']),
        ([{'t': 'amp', 'name': 't2', 'up': ['d'], 'lo': ['i']},
          anti('V', 'bd', 'ef'), anti('V', 'ik', 'jb'), anti('f', 'l', 'k')],
         ['e', 'f', 'j', 'l']),
        ([anti('V', 'ab', 'ij'), anti('V', 'jk', 'bc'), anti('f', 'c', 'd'),
          {'t': 'amp', 'name': 't2', 'up': ['d'], 'lo': ['k']}],
         ['a', 'i']),
    ]
    for q, (objs, order) in enumerate(fixed):
        order = [s_ for s_ in order]
        cases.append({'id': f'C15-{tier[0]}{seed}-chain-{q}', 'kind': 'gen',
                      'terms': [{'pref': '1', 'objs': objs}], 'order': order,
                      'spins': [''.join(p_) for p_ in
                                itertools.product('ab', repeat=len(order))],
                      'symbolic': False, 'mseed': r.randrange(1 << 30),
                      'cost': 20})
    for name in ['t2_1', 't1_2', 't2_2', 'p0_2_oo', 'p0_2_vv', 't2eri_3',
                 'energy_2', 'mp2_density']:
        cases.append({'id': f'C15-{tier[0]}{seed}-itmd-{name}', 'kind': 'itmd',
                      'name': name, 'mseed': r.randrange(1 << 30), 'cost': 20,
                      'timeout': 1500})
    return cases


class SpinModel:
    """builds tm.Model instances with spin structure"""

    def __init__(self, nso, nsv, mseed, p=None, restricted=False,
                 spatial_V=False):
        from .. import tm
        self.tm = tm
        p = p or tm.PRIMES[0]
        n_o, n_v = 2 * nso, 2 * nsv
        N = n_o + n_v
        base = tm.Model(n_o, n_v, seed=mseed, p=p, spin=True,
                        sym={'f': 1, 'V': 1})
        self.spin_of = base.spin_of
        self.spatial_of = base.spatial_of
        spin_of, spat = self.spin_of, self.spatial_of
        nsp = nso + nsv
        rng = np.random.default_rng([mseed, 5])
        if restricted:
            g = rng.integers(1, p, size=(nsp,) * 4).astype(object)
        else:
            g = rng.integers(1, p, size=(N,) * 4).astype(object)
        g = g + g.transpose(1, 0, 2, 3)
        g = g + g.transpose(0, 1, 3, 2)
        g = g + g.transpose(2, 3, 0, 1)
        g = (g % p).astype(np.int64)
        if restricted:
            g = g[np.ix_(spat, spat, spat, spat)]
        sd = (spin_of[:, None] == spin_of[None, :]).astype(np.int64)
        coul = g * sd[:, :, None, None] * sd[None, None, :, :] % p
        V = (coul.transpose(0, 2, 1, 3) - coul.transpose(0, 2, 3, 1)) % p
        self.restricted = restricted
        self.N = N

        def conserving(k):
            idx = np.indices((N,) * (2 * k))
            up = sum((spin_of[idx[x]] == 0).astype(int) for x in range(k))
            lo = sum((spin_of[idx[x]] == 0).astype(int)
                     for x in range(k, 2 * k))
            return (up == lo).astype(np.int64)
        masks = {k: conserving(k) for k in (1, 2)}
        spatial_model = tm.Model(nsp, nsp, seed=mseed + 1, p=p,
                                 sym={'f': 1, 'Vsp': 1})

        def spin_tensor(name, kind='anti'):
            def f(model, ud, ld):
                k = len(ud)
                doms = list(ud) + list(ld)
                if restricted:
                    # value depends on the spatial functions only
                    sdoms = [spat[d] for d in doms]
                    arr = spatial_model.tensor_block(
                        kind, name, [np.arange(nsp)] * k,
                        [np.arange(nsp)] * len(ld))
                    arr = arr[np.ix_(*sdoms)]
                else:
                    arr = base.tensor_block(kind, name, ud, ld)
                if len(ud) == len(ld) and k in masks:
                    arr = arr * masks[k][np.ix_(*doms)] % p
                return arr
            return f
        explicit = {('V', 2, 2): V if not spatial_V else None,
                    ('v', 2, 2): coul}
        if spatial_V:
            def vsp(model, ud, ld):
                doms = list(ud) + list(ld)
                sdoms = [spat[d] for d in doms]
                arr = spatial_model.tensor_block(
                    'anti', 'Vsp', [np.arange(nsp)] * 2, [np.arange(nsp)] * 2)
                # allowed blocks of the ERI
                idx = np.indices((N,) * 4)
                s = [spin_of[idx[x]] for x in range(4)]
                allowed = ((s[0] == s[2]) & (s[1] == s[3])) | \
                    ((s[0] == s[3]) & (s[1] == s[2]))
                return arr[np.ix_(*sdoms)] * allowed[np.ix_(*doms)] % p
            explicit[('V', 2, 2)] = vsp
        for nm in ('f',):
            explicit[(nm, 1, 1)] = spin_tensor(nm)
        for nm in ('t1', 't2', 't3', 't1cc', 't2cc'):
            explicit[(nm, 1, 1)] = spin_tensor(nm.replace('cc', ''))
            explicit[(nm, 2, 2)] = spin_tensor(nm.replace('cc', ''))
        sym = {'V': 1, 'f': 1, 'v': 1}
        if spatial_V:
            sym['Vsp'] = 1
        if restricted:
            # every other tensor depends on the spatial functions only, too
            class RestrictedModel(tm.Model):
                def tensor_block(self_, kind, name, ud, ld):
                    nm = self_.alias.get(name, name)
                    if (nm, len(ud), len(ld)) in self_.explicit or \
                            nm in self_.explicit or nm in self_.zero:
                        return tm.Model.tensor_block(self_, kind, name, ud, ld)
                    doms = list(ud) + list(ld)
                    arr = spatial_model.tensor_block(
                        kind, nm, [np.arange(nsp)] * len(ud),
                        [np.arange(nsp)] * len(ld))
                    return arr[np.ix_(*[spat[d] for d in doms])] if doms \
                        else arr
            cls = RestrictedModel
        else:
            cls = tm.Model
        self.model = cls(n_o, n_v, seed=mseed, p=p, spin=True, sym=sym,
                         explicit=explicit)
        if restricted:
            # orbital energies depend on the spatial function only
            e_sp = np.random.default_rng([mseed, 9]).integers(1, p, size=nsp)
            self.model.e = e_sp[spat].astype(np.int64)
        # symbolic denominators
        from .c13 import denom_model
        self.model.explicit['D'] = denom_model(2, 2, 0).explicit['D']
        self.ev = tm.Evaluator(self.model)

    def block(self, full, order, spins):
        """slice the spin-orbital array (axes = spin-free targets) to the
        requested spins"""
        sel = []
        for s, c in zip(order, spins):
            dom = self.model.domain(s)
            want = 0 if c == 'a' else 1
            sel.append(np.nonzero(self.spin_of[dom] == want)[0])
        return full[np.ix_(*sel)] if sel else full


def run_case(case, res):
    if case['kind'] == 'itmd':
        return run_itmd(case, res)
    from adcgen import Expr, transform_to_spatial_orbitals, get_symbols
    from adcgen.spatial_orbitals import allowed_spin_blocks
    from .. import tm
    e = ir.mk_expr(case['terms'])
    if e == 0:
        res.skip('zero input')
        return
    order = [ir.mk_index(s) for s in case['order']]
    tstr = ''.join(case['order'])
    E = Expr(e, real=True, target_idx=order if order else None)
    if case['symbolic']:
        try:
            E = lib_call(E.use_symbolic_denominators,
                         refusals=('NotImplementedError', 'Inputerror',
                                   'RuntimeError'))
        except Refused:
            pass
    res.fingerprint = fp(_shape(case['terms']), len(order), case['symbolic'])
    return check_expr(E, order, tstr, case['spins'], case['mseed'], res,
                      str(E)[:250])


def check_expr(E, order, tstr, spin_list, mseed, res, label,
               restricted_ok=True):
    from adcgen import transform_to_spatial_orbitals, get_symbols
    from adcgen.spatial_orbitals import allowed_spin_blocks
    from .. import tm
    sm = SpinModel(1, 1, mseed) if len(order) > 4 else SpinModel(2, 2, mseed)
    try:
        full = sm.ev.value(E.sympy, order)
    except tm.ModelUnusable:
        res.skip('model unusable')
        return
    observed = {'input': label, 'targets': tstr, 'blocks': {}}
    res.observed = observed
    nonzero_blocks = set()
    for spins in spin_list:
        v0 = sm.block(full, order, spins)
        if np.any(v0):
            nonzero_blocks.add(spins)
        tg_out = get_symbols([s.name for s in order], spins) if order else []
        for expand in (False, True):
            R = lib_call(transform_to_spatial_orbitals, E.copy(), tstr, spins,
                         False, expand,
                         refusals=('NotImplementedError', 'Inputerror'))
            v1 = sm.ev.value(R.sympy, tg_out)
            res.count('integrations_checked')
            res.count('points_compared', int(v0.size))
            if v0.shape != v1.shape or not np.array_equal(v0, v1):
                res.violation(
                    f'transform_to_spatial_orbitals({label}, {tstr}, {spins}, '
                    f'restricted=False, expand_eri={expand}) = {str(R)[:300]} '
                    f'differs from the spin-orbital expression on the requested '
                    f'spin block')
                return
        if np.any(v0):
            res.count('nonzero_reference_blocks')
            res.nontrivial = True
        observed['blocks'][spins] = int(np.count_nonzero(v0))
    # restricted reference (all-alpha result), both ERI treatments
    if restricted_ok:
        for expand in (True, False):
            smr = SpinModel(2, 2, mseed, restricted=True,
                            spatial_V=not expand)
            try:
                fullr = smr.ev.value(E.sympy, order)
            except tm.ModelUnusable:
                continue
            for spins in spin_list[:2]:
                v0 = smr.block(fullr, order, spins)
                try:
                    R = lib_call(transform_to_spatial_orbitals, E.copy(), tstr,
                                 spins, True, expand,
                                 refusals=('NotImplementedError', 'Inputerror',
                                           'RuntimeError'))
                except Refused:
                    res.count('restricted_refused')
                    continue
                tg_out = get_symbols([s.name for s in order],
                                     'a' * len(order)) if order else []
                v1 = smr.ev.value(R.sympy, tg_out)
                res.count('restricted_checked')
                if v0.shape != v1.shape or not np.array_equal(v0, v1):
                    res.violation(
                        f'restricted transform_to_spatial_orbitals({label}, '
                        f'{tstr}, {spins}, expand_eri={expand}) = '
                        f'{str(R)[:300]} differs from the spin-orbital value in '
                        f'a model whose alpha and beta tensors coincide',
                        ['restricted'])
                    return
    # allowed spin blocks of the expression
    if order:
        try:
            # documented: only works for closed expressions (all spin blocks
            # known) - RuntimeError otherwise
            allowed = lib_call(allowed_spin_blocks, E.copy(), tstr,
                               refusals=('NotImplementedError', 'Inputerror',
                                         'RuntimeError'))
        except Refused:
            return
        res.count('allowed_blocks_checked')
        observed['allowed'] = list(allowed)
        for spins in (''.join(p) for p in itertools.product('ab',
                                                            repeat=len(order))):
            if spins not in allowed:
                res.count('forbidden_blocks_zero')
                if np.any(sm.block(full, order, spins)):
                    res.violation(
                        f'allowed_spin_blocks({label}, {tstr}) = {allowed} does '
                        f'not report {spins}, but that block is non-zero')
                    return


def run_itmd(case, res):
    """intermediates and real derivation outputs (as in the examples)"""
    from adcgen import Expr, Intermediates, GroundState, Operators, get_symbols
    from adcgen import remove_tensor, simplify
    name = case['name']
    res.fingerprint = fp('itmd', name)
    if name == 'energy_2':
        gs = GroundState(Operators('mp'))
        E = Expr(gs.energy(2), real=True).expand_intermediates()
        order, tstr = [], ''
    elif name == 'mp2_density':
        gs = GroundState(Operators('mp'))
        E0 = simplify(Expr(gs.expectation_value(2, 1), real=True))
        parts = remove_tensor(E0, 'd')
        key = sorted(parts, key=str)[0]
        E = simplify(parts[key])
        order = list(E.terms[0].target)
        tstr = ''.join(s.name for s in order)
        E = Expr(E.sympy, real=True, target_idx=order)
    else:
        itmd = Intermediates().available[name]
        idx = itmd.default_idx
        t = itmd.tensor(indices=idx) if hasattr(itmd, 'tensor') else None
        E = itmd.expand_itmd(indices=idx, fully_expand=False)
        E = Expr(E.sympy, real=True)
        order = list(get_symbols(idx))
        tstr = ''.join(idx)
        E = Expr(E.sympy, real=True, target_idx=order).expand()
    spins = [''.join(p) for p in itertools.product('ab', repeat=len(order))]
    if len(spins) > 6:
        r = rng_for(case['mseed'], 'sp')
        spins = r.sample(spins, 6)
    check_expr(E, order, tstr, spins, case['mseed'], res, name)


def _shape(terms):
    out = []
    for t in terms:
        out.append(sorted((o['t'], o.get('name', ''), len(o.get('up', [])),
                           len(o.get('lo', [])), o.get('exp', 1))
                          for o in t['objs']))
    return sorted(out)
