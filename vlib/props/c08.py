"""C08 - index renaming is capture-free and yields the documented names."""
import numpy as np

from ..common import fp, lib_call, rng_for
from .. import ir

LEVEL = 'exploration'
BATCH = 30
CASE_TIMEOUT = 300
RULE = ("(a) index maps (chains, cycles, chains into cycles, many-to-one, identity "
        "entries, mixed spaces/spins) applied through order_substitutions vs. the "
        "simultaneous substitution executed on the IR; (b) permutation sequences "
        "via Expr.permute vs. transpositions applied one after another on the IR; "
        "(c) substitute_contracted / substitute_with_generic on generated terms "
        "(targets chosen to collide with low names; spin labels; numbered names): "
        "targets untouched, no merging, value, exactly the lowest unused names per "
        "space and spin resp. never-used generic names; (d) histories of 50-500 "
        "interleaved registry requests recorded by hooks on Indices.get_indices / "
        "get_generic_indices and checked offline (name -> object is a function; "
        "generic names are fresh and >= the initial counter). non-trivial: the "
        "operation changed the expression / the history has generic and colliding "
        "explicit requests; distinct by structural fingerprint.")
ASSUMPTIONS = ["object identity of adcgen's canonical tensor objects decides "
               "equality up to sign"]

POOL = {
    'occ': ['i', 'j', 'k', 'l', 'i1', 'j1', 'm7', 'o', 'i:a', 'j:a', 'i:b',
            'k:b'],
    'virt': ['a', 'b', 'c', 'd', 'a1', 'b1', 'h2', 'e5', 'a:a', 'b:a', 'a:b',
             'c:b'],
    'general': ['p', 'q', 'r', 's', 'p1', 'w1'],
}


def floors(tier):
    q = {'subs_cases': 150, 'subs_with_cycle': 30, 'permute_cases': 80,
         'rename_cases': 120, 'registry_events': 1500, 'generic_requests': 100}
    if tier == 'thorough':
        q = {k: v * 5 for k, v in q.items()}
    return q


def _space_of(s):
    return ir.index_space(ir.split_index(s)[0])


def _rand_map(r, idxs):
    """index map over the term's indices + pool: chains, cycles, many-to-one"""
    m = {}
    kind = r.choice(['cycle', 'chain', 'chain_into_cycle', 'random', 'many1'])
    by = {}
    for s in idxs:
        by.setdefault((_space_of(s), ir.split_index(s)[1]), []).append(s)
    cross = r.random() < 0.15   # mixed spaces/spins
    for (space, spin), lst in by.items():
        pool = [s for s in POOL[space] if ir.split_index(s)[1] == spin]
        if cross:
            pool = POOL[space] + POOL[r.choice(list(POOL))][:3]
        members = list(dict.fromkeys(lst + r.sample(pool, min(3, len(pool)))))
        r.shuffle(members)
        if kind == 'cycle' and len(members) >= 2:
            k = r.randint(2, min(5, len(members)))
            cyc = members[:k]
            for a, b in zip(cyc, cyc[1:] + cyc[:1]):
                m[a] = b
        elif kind == 'chain' and len(members) >= 2:
            k = r.randint(2, min(5, len(members)))
            for a, b in zip(members[:k - 1], members[1:k]):
                m[a] = b
        elif kind == 'chain_into_cycle' and len(members) >= 4:
            cyc = members[:2]
            m[cyc[0]], m[cyc[1]] = cyc[1], cyc[0]
            m[members[2]] = cyc[0]
            m[members[3]] = members[2]
        elif kind == 'many1' and len(members) >= 3:
            tgt = members[0]
            for a in members[1:r.randint(2, min(4, len(members)))]:
                m[a] = tgt
        else:
            for a in members:
                if r.random() < 0.6:
                    m[a] = r.choice(members)
    if r.random() < 0.3 and idxs:
        s = r.choice(idxs)
        m.setdefault(s, s)   # identity entry
    return m, kind


def gen_cases(tier, seed):
    from ..gen import ExprGen
    import vlib.gen as G
    r = rng_for(seed, 'C08', tier)
    mult = 1 if tier == 'quick' else 8
    cases = []

    def mk_term(spin):
        g = ExprGen(r, spin=spin, general=0.2, exponents=0.1, symbols=0.05)
        return g.term(nobj=r.randint(1, 4))
    k = 0
    for _ in range(320 * mult):
        t = mk_term(r.random() < 0.3)
        if t is None:
            continue
        idxs = sorted(ir.term_indices(t))
        m, kind = _rand_map(r, idxs)
        if not m:
            continue
        cases.append({'id': f'C08-{tier[0]}{seed}-{k:05d}-subs', 'kind': 'subs',
                      'term': t, 'map': [[a, b] for a, b in m.items()],
                      'mapkind': kind})
        k += 1
    for _ in range(160 * mult):
        t = mk_term(r.random() < 0.2)
        if t is None:
            continue
        idxs = sorted(ir.term_indices(t))
        perms = []
        for _p in range(r.randint(1, 5)):
            a = r.choice(idxs)
            same = [s for s in idxs + POOL[_space_of(a)][:4]
                    if _space_of(s) == _space_of(a)
                    and ir.split_index(s)[1] == ir.split_index(a)[1]]
            perms.append([a, r.choice(same)])
        cases.append({'id': f'C08-{tier[0]}{seed}-{k:05d}-perm', 'kind': 'permute',
                      'term': t, 'perms': perms})
        k += 1
    for _ in range(260 * mult):
        spin = r.random() < 0.35
        g = ExprGen(r, spin=spin, general=0.2, exponents=0.1, symbols=0.05)
        # bias names: targets low (collide with the lowest names) or high
        saved = {sp: list(v) for sp, v in G.POOLS.items()}
        try:
            G.POOLS['occ'] = r.sample(['i', 'j', 'k', 'l', 'm', 'n', 'o', 'i1',
                                       'j1', 'k3', 'm7'], 8)
            G.POOLS['virt'] = r.sample(['a', 'b', 'c', 'd', 'e', 'f', 'g', 'h',
                                        'a1', 'b1', 'c2', 'h5'], 8)
            if spin and r.random() < 0.6:
                # few low names: targets and contracted indices of different
                # spin compete for the same name
                G.POOLS['occ'] = ['i', 'j', 'k']
                G.POOLS['virt'] = ['a', 'b', 'c']
                g.max_pool = 3
            nterms = r.choice([1, 1, 2, 3])
            first = g.term(nobj=r.randint(1, 4))
            if first is None:
                continue
            tg = ir.term_targets(first)
            terms = [first]
            for _t in range(nterms - 1):
                t2 = g.term(targets=tg, nobj=r.randint(1, 4))
                if t2 is not None:
                    terms.append(t2)
        finally:
            G.POOLS.update(saved)
        explicit = r.random() < 0.35
        held = False
        if explicit and len(terms) == 1 and r.random() < 0.6:
            # an index that occurs twice is declared a target (only possible with
            # explicit targets) ...
            twice = [s_ for s_, n_ in ir.term_indices(first).items() if n_ == 2]
            if twice:
                tg = sorted(tg + [r.choice(twice)])
            # ... on Term objects that were created (and queried) *before* the
            # targets of their expression were set
            held = r.random() < 0.6
        cases.append({'id': f'C08-{tier[0]}{seed}-{k:05d}-ren', 'kind': 'rename',
                      'terms': terms, 'targets': tg, 'spin': spin,
                      'mode': r.choice(['lowest', 'generic']),
                      'explicit': explicit, 'held_terms': held,
                      'mseed': r.randrange(1 << 30)})
        k += 1
    # long chains: more contracted indices of one space than un-numbered names
    # (numbered generations i1.. are needed) with numbered target names
    base = {'occ': 'ijklmno', 'virt': 'abcdefgh', 'general': 'pqrstuvw'}
    for c in range(14 * mult):
        sp = r.choice(['occ', 'virt', 'general'])
        ncon = r.randint(len(base[sp]) - 1, len(base[sp]) + 4)
        tnames = []
        while len(tnames) < 2:     # two distinct names, numbered ones preferred
            nm = r.choice(base[sp][:3]) + r.choice(['', '1', '1', '2'])
            if nm not in tnames:
                tnames.append(nm)
        pool = [b + sfx for sfx in ('', '3', '4', '9') for b in base[sp]
                if b + sfx not in tnames]
        con = r.sample(pool, ncon)
        seq = [tnames[0]] + con + [tnames[1]]
        objs = [{'t': 'non', 'name': r.choice(['x', 'y']),
                 'up': [seq[q], seq[q + 1]]} for q in range(len(seq) - 1)]
        cases.append({'id': f'C08-{tier[0]}{seed}-{k:05d}-chain', 'kind': 'rename',
                      'terms': [{'pref': '1', 'objs': objs}],
                      'targets': sorted(tnames), 'spin': False,
                      'mode': 'lowest', 'explicit': r.random() < 0.3,
                      'mseed': r.randrange(1 << 30), 'dims': [2, 2]})
        k += 1
    # the name helper itself against the documented rule
    for c in range(30 * mult):
        sp = r.choice(['occ', 'virt', 'general'])
        allnames = [b + sfx for sfx in ('', '1', '2', '3') for b in base[sp]]
        used = r.sample(allnames, r.randint(0, 14))
        cases.append({'id': f'C08-{tier[0]}{seed}-{k:05d}-lowest',
                      'kind': 'lowest', 'space': sp, 'used': used,
                      'n': r.randint(1, 18)})
        k += 1
    # minimisation of the indices of one tensor (lowest non-target names in the
    # order of first occurrence; repeated indices; targets kept)
    for c in range(60 * mult):
        spin = r.random() < 0.3
        n = r.randint(1, 6)
        pool = []
        for sp in r.sample(['occ', 'virt', 'general'], r.randint(1, 3)):
            nm = [b + sfx for sfx in ('', '', '1', '2') for b in base[sp][:5]]
            for x_ in r.sample(nm, r.randint(1, 4)):
                pool.append(x_ + (':' + r.choice('ab') if spin else ''))
        idx = [r.choice(pool) for _ in range(n)]
        tgt = [x_ for x_ in set(idx) if r.random() < 0.25]
        # further target names that are not on the tensor block low names
        extra = [x_ for x_ in pool if x_ not in idx and r.random() < 0.3]
        cases.append({'id': f'C08-{tier[0]}{seed}-{k:05d}-min', 'kind': 'minimize',
                      'idx': idx, 'targets': sorted(set(tgt + extra))})
        k += 1
    for h in range(6 * mult):
        cases.append({'id': f'C08-{tier[0]}{seed}-hist{h:03d}', 'kind': 'history',
                      'length': [300, 500, 120, 300, 500, 50][h % 6],
                      'hseed': r.randrange(1 << 30), 'cost': 20,
                      'derive': r.random() < 0.5})
    return cases


def run_case(case, res):
    kind = case['kind']
    if kind == 'subs':
        return run_subs(case, res)
    if kind == 'permute':
        return run_permute(case, res)
    if kind == 'rename':
        return run_rename(case, res)
    if kind == 'lowest':
        return run_lowest(case, res)
    if kind == 'minimize':
        return run_minimize(case, res)
    return run_history(case, res)


def run_minimize(case, res):
    from adcgen.indices import minimize_tensor_indices
    idx = [ir.mk_index(x) for x in case['idx']]
    tgt = [ir.mk_index(x) for x in case['targets']]
    tnames = {}
    for t in tgt:
        tnames.setdefault(t.space_and_spin, []).append(t.name)
    got, perms = lib_call(minimize_tensor_indices, tuple(idx),
                          {k_: list(v) for k_, v in tnames.items()})
    res.count('minimize_calls')
    # oracle: distinct non-target indices get, in the order of first occurrence,
    # the lowest names of their (space, spin) that are no target names
    gens, new = {}, {}
    for s_ in idx:
        key = s_.space_and_spin
        if s_ in new:
            continue
        if s_.name in tnames.get(key, []):
            new[s_] = (s_.name, s_.spin)
            continue
        if key not in gens:
            gens[key] = (nm for nm in ir.name_sequence(key[0])
                         if nm not in tnames.get(key, []))
        new[s_] = (next(gens[key]), s_.spin)
    exp = [new[s_] for s_ in idx]
    gotn = [(s_.name, s_.spin) for s_ in got]
    res.nontrivial = [(s_.name, s_.spin) for s_ in idx] != exp
    res.fingerprint = fp('min', [list(new).index(s_) for s_ in idx],
                         [s_.space_and_spin for s_ in idx],
                         [s_.name in tnames.get(s_.space_and_spin, [])
                          for s_ in idx])
    res.observed = {'idx': case['idx'], 'targets': case['targets'],
                    'got': [str(s_) for s_ in got], 'perms': str(perms)}
    if any(a.space_and_spin != b.space_and_spin for a, b in zip(idx, got)):
        res.violation(f'minimize_tensor_indices({case["idx"]}) changed the space '
                      f'or spin of a slot: {got}')
        return
    if gotn != exp:
        res.violation(f'minimize_tensor_indices({case["idx"]}, targets '
                      f'{case["targets"]}) = {[str(s_) for s_ in got]}: not the '
                      f'lowest non-target names in the order of first occurrence '
                      f'{exp}')
        return
    # the returned transpositions, applied one after another, give the result
    cur = list(idx)
    for pq in perms:
        a, b = pq
        cur = [b if s_ is a else a if s_ is b else s_ for s_ in cur]
    if [(s_.name, s_.spin) for s_ in cur] != gotn:
        res.violation(f'minimize_tensor_indices({case["idx"]}): the returned '
                      f'permutations {perms} applied one after another give '
                      f'{[str(s_) for s_ in cur]}, not the returned indices '
                      f'{[str(s_) for s_ in got]}')
        return
    # idempotent
    again, perms2 = lib_call(minimize_tensor_indices, tuple(got),
                             {k_: list(v) for k_, v in tnames.items()})
    if tuple(again) != tuple(got) or len(perms2):
        res.violation(f'minimize_tensor_indices is not idempotent on {got}: '
                      f'{again} with {perms2}')


def run_lowest(case, res):
    from adcgen.indices import get_lowest_avail_indices
    got = lib_call(get_lowest_avail_indices, case['n'], list(case['used']),
                   case['space'])
    res.count('lowest_name_requests')
    exp = _lowest(case['space'], set(case['used']), case['n'])
    res.nontrivial = bool(case['used'])
    res.fingerprint = fp('lowest', case['space'], case['n'],
                         len(case['used']), any(ch.isdigit() for u in
                                                case['used'] for ch in u))
    res.observed = {'n': case['n'], 'used': case['used'], 'got': list(got)}
    if list(got) != exp:
        res.violation(f'get_lowest_avail_indices({case["n"]}, {case["used"]}, '
                      f'{case["space"]!r}) = {list(got)}: not the lowest names '
                      f'that are not in use ({exp})')


def run_subs(case, res):
    from sympy import S
    from adcgen.indices import order_substitutions
    term = ir.mk_term(case['term'])
    if term is S.Zero:
        res.skip('zero term')
        return
    m = {a: b for a, b in case['map']}
    sym = {s: ir.mk_index(s) for s in set(m) | set(m.values())}
    subs = lib_call(order_substitutions, {sym[a]: sym[b] for a, b in m.items()})
    got = term.subs(subs)
    exp = ir.mk_term(ir.rename_term(case['term'], m))
    res.count('subs_cases')
    if case['mapkind'] in ('cycle', 'chain_into_cycle'):
        res.count('subs_with_cycle')
    res.nontrivial = exp != term
    res.fingerprint = fp('subs', case['mapkind'], _shape([case['term']]),
                         len(m))
    res.observed = {'term': str(term), 'map': m, 'ordered': str(subs),
                    'result': str(got)}
    if (got - exp) is not S.Zero and (got - exp).expand() != 0:
        res.violation(f'order_substitutions({m}) applied to {term} gives {got},'
                      f' the simultaneous substitution gives {exp}')


def run_permute(case, res):
    from sympy import S
    from adcgen import Expr
    term = ir.mk_term(case['term'])
    if term is S.Zero:
        res.skip('zero term')
        return
    perms = [(ir.mk_index(a), ir.mk_index(b)) for a, b in case['perms']]
    got = lib_call(Expr(term).permute, *perms).sympy
    cur = case['term']
    for a, b in case['perms']:
        cur = ir.rename_term(cur, {a: b, b: a})
    exp = ir.mk_term(cur)
    res.count('permute_cases')
    res.nontrivial = exp != term
    res.fingerprint = fp('perm', _shape([case['term']]), len(perms),
                         len({tuple(sorted(p)) for p in case['perms']}))
    res.observed = {'term': str(term), 'perms': case['perms'],
                    'result': str(got)}
    if (got - exp) is not S.Zero and (got - exp).expand() != 0:
        res.violation(f'permute{tuple(case["perms"])} on {term} gives {got}; '
                      f'the transpositions applied one after another give {exp}')


def _lowest(space, used, n):
    out = []
    for nm in ir.name_sequence(space):
        if nm not in used:
            out.append(nm)
        if len(out) == n:
            return out


def run_rename(case, res):
    from sympy import S, Symbol
    from adcgen import Expr
    from adcgen.indices import Index
    from .. import tm
    e = ir.mk_expr(case['terms'])
    if e == 0:
        res.skip('zero input')
        return
    tg = [ir.mk_index(s) for s in case['targets']]
    kw = {'target_idx': tg} if case['explicit'] else {}
    E = Expr(e, **kw)
    mode = case['mode']
    idx_before = _all_indices_before = None
    if mode == 'generic':
        from adcgen.indices import Indices
        reg = Indices()
        handed_out = {(sp, spin, n) for sp, d in reg._symbols.items()
                      for spin, dd in d.items() for n in dd}
    if case.get('held_terms'):
        def held_route():
            from sympy import Add
            E0 = Expr(e)
            held = E0.terms
            for t_ in held:       # the terms are used before the targets are set
                t_.target, t_.contracted
            E0.set_target_idx(tg)
            out = Add(*[(t_.substitute_contracted(return_sympy=True)
                         if mode == 'lowest' else
                         t_.substitute_with_generic(return_sympy=True))
                        for t_ in held])
            return Expr(out, target_idx=tg)
        R = lib_call(held_route,
                     refusals=('Inputerror', 'NotImplementedError', 'ValueError'))
        res.count('held_term_routes')
    else:
        R = lib_call(E.copy().substitute_contracted if mode == 'lowest'
                     else E.copy().substitute_with_generic,
                     refusals=('Inputerror', 'NotImplementedError',
                               'ValueError'))
    res.count('rename_cases')
    if mode == 'lowest' and not case.get('held_terms'):
        # the same renaming through the substitutions returned by
        # only_build_sub=True (the route reduce_expr takes): applied with subs
        # they must give the same expression
        def sub_route():
            from sympy import Add
            out = 0
            for t_ in E.copy().expand().terms:
                sub = t_.substitute_contracted(only_build_sub=True)
                out += t_.sympy.subs(sub)
            return out
        via_sub = lib_call(sub_route, refusals=('Inputerror', 'ValueError',
                                                'NotImplementedError'))
        res.count('sub_list_routes')
        if (via_sub - R.sympy).expand() != 0:
            res.violation(f'substitute_contracted(only_build_sub=True) + subs '
                          f'gives {via_sub}, the direct call gives {R} for {E}')
            return
    n_o, n_v = case.get('dims') or ((4, 4) if case['spin'] else (2, 3))
    model = tm.Model(n_o, n_v, seed=case['mseed'], spin=case['spin'])
    ev = tm.Evaluator(model)
    res.nontrivial = R.sympy != E.sympy
    res.fingerprint = fp('ren', mode, _shape(case['terms']), case['explicit'],
                         case['spin'])
    res.observed = {'input': str(E)[:250], 'output': str(R)[:250],
                    'targets': case['targets'], 'mode': mode}
    tin = tm.terms_of(E.sympy.expand())
    tout = tm.terms_of(R.sympy.expand())
    # value
    v0, v1 = ev.value(E.sympy, tg), ev.value(R.sympy, tg)
    if not np.array_equal(v0, v1):
        res.violation(f'{mode} renaming changed the value: {E} -> {R}')
        return
    merged_terms = False
    if len(tout) > len(tin):
        res.violation(f'{mode} renaming changed the number of terms')
        return
    if len(tout) < len(tin):
        # two alpha-equivalent input terms (2 d^{i1}_{i1} - 2/3 d^j_j) become the
        # same term after the renaming and are added up by sympy: the value was
        # compared above, the per-term pattern comparison below is skipped
        merged_terms = True
        res.count('alpha_equivalent_input_terms_added_up')
    # per term: targets untouched, injective, names
    def idx_of(t):
        return tm.count_indices(t)
    in_sets = sorted((sorted(map(str, idx_of(t))) for t in tin))
    for t in tout:
        cnt = idx_of(t)
        targets_t = [s for s in cnt if s in tg] if case['explicit'] else \
            [s for s, n in cnt.items() if n == 1]
        contracted = [s for s in cnt if s not in targets_t]
        if not case['explicit'] and set(targets_t) != set(tg) and \
                len(case['terms']) == 1:
            res.violation(f'targets changed: {tg} -> {targets_t} in {R}')
            return
        for key in {(s.space, s.spin) for s in contracted}:
            names = sorted(s.name for s in contracted
                           if (s.space, s.spin) == key)
            if mode == 'lowest':
                used = {s.name for s in targets_t if (s.space, s.spin) == key}
                exp = sorted(_lowest(key[0], used, len(names)))
                if names != exp:
                    res.violation(
                        f'substitute_contracted: contracted {key} names {names}'
                        f' are not the lowest unused {exp} (targets '
                        f'{targets_t}): {E} -> {R}')
                    return
            else:
                for s in contracted:
                    num = int(s.name[1:]) if s.name[1:] else 0
                    if num < 3 or (s.space, s.spin, s.name) in handed_out:
                        res.violation(
                            f'substitute_with_generic used the name {s} that '
                            f'was handed out before: {E} -> {R}')
                        return
    # no merging: same multiset of index-count patterns per term
    pat_in = sorted(sorted(idx_of(t).values()) for t in tin)
    pat_out = sorted(sorted(idx_of(t).values()) for t in tout)
    if merged_terms:
        pat_in = [p_ for p_ in pat_in if p_ in pat_out]
        pat_out = [p_ for p_ in pat_out if p_ in pat_in]
        if not all(p_ in pat_in for p_ in pat_out):
            res.violation(f'{mode} renaming merged or split indices: {E} -> {R}')
        return
    if pat_in != pat_out:
        res.violation(f'{mode} renaming merged or split indices: {E} -> {R}')


def run_history(case, res):
    """interleaved registry requests, recorded by hooks, checked offline"""
    from adcgen.indices import Indices, get_symbols
    from .. import monitor
    r = rng_for(case['hseed'], 'hist')
    log = monitor.EventLog()
    keep = []
    depth = [0]

    def wrap(name):
        def factory(orig):
            def wrapper(self, *a, **kw):
                depth[0] += 1
                try:
                    out = orig(self, *a, **kw)
                finally:
                    depth[0] -= 1
                if depth[0] == 0:
                    objs = [s for lst in out.values() for s in lst]
                    keep.extend(objs)
                    log.add(name, args=repr((a, kw))[:80],
                            returned=[(s.space, s.spin, s.name, id(s))
                                      for s in objs])
                return out
            return wrapper
        return factory
    undo = [monitor.patch_method(Indices, 'get_indices', wrap('get_indices')),
            monitor.patch_method(Indices, 'get_generic_indices',
                                 wrap('get_generic_indices'))]
    reg = Indices()
    try:
        for step in range(case['length']):
            x = r.random()
            if x < 0.35:
                kw = {}
                for _ in range(r.randint(1, 3)):
                    sp = r.choice(['occ', 'virt', 'general'])
                    spin = r.choice(['', '', '_a', '_b'])
                    kw[sp + spin] = r.randint(0, 4)
                lib_call(reg.get_generic_indices, **kw)
            elif x < 0.75:
                # explicit requests incl. names colliding with generic names
                n = r.randint(1, 4)
                names, spins = [], []
                for _ in range(n):
                    sp = r.choice(['occ', 'virt', 'general'])
                    base = r.choice(ir.NAMES[sp])
                    num = r.choice(['', '', '1', '2', '3', '3', '4', '5', '12'])
                    names.append(base + num)
                    spins.append(r.choice(['', '', 'a', 'b']))
                if any(spins):
                    lib_call(reg.get_indices, names, spins)
                else:
                    lib_call(get_symbols, ''.join(names))
            elif x < 0.8 and case['derive']:
                from adcgen import GroundState, Operators
                gs = GroundState(Operators(r.choice(['mp', 're'])))
                lib_call(r.choice([lambda: gs.psi(1, 'ket'),
                                   lambda: gs.energy(1),
                                   lambda: gs.norm_factor(2)]))
            else:
                lib_call(get_symbols, r.choice(['ijab', 'pq', 'i3a3', 'k2c7']))
    finally:
        for u in undo:
            u()
    # -- offline checker over the event log ----------------------------------
    ident = {}
    seen_names = set()
    n_generic = 0
    for ev_ in log.events:
        for space, spin, name, oid in ev_['returned']:
            key = (space, spin, name)
            if key in ident and ident[key] != oid:
                res.violation(f'registry returned two different objects for '
                              f'{key} (event {ev_["seq"]} {ev_["fn"]})')
                return
            ident[key] = oid
        if ev_['fn'] == 'get_generic_indices':
            n_generic += 1
            for space, spin, name, oid in ev_['returned']:
                if (space, spin, name) in seen_names:
                    res.violation(f'get_generic_indices handed out '
                                  f'{(space, spin, name)} that was returned '
                                  f'by an earlier request (event {ev_["seq"]})')
                    return
                num = int(name[1:]) if name[1:] else 0
                if num < 3:
                    res.violation(f'generic index {name} below the initial '
                                  f'counter (event {ev_["seq"]})')
                    return
        for space, spin, name, oid in ev_['returned']:
            seen_names.add((space, spin, name))
    res.count('registry_events', len(log.events))
    res.count('generic_requests', n_generic)
    res.count('distinct_names', len(ident))
    res.nontrivial = n_generic > 0
    res.fingerprint = fp('hist', case['length'], case['derive'], case['hseed'])
    res.observed = {'events': len(log.events), 'generic_requests': n_generic,
                    'distinct_index_objects': len(ident),
                    'first_events': log.events[:3]}


def _shape(terms):
    out = []
    for t in terms:
        out.append(sorted((o['t'], o.get('name', ''), len(o.get('up', [])),
                           len(o.get('lo', [])), o.get('exp', 1))
                          for o in t['objs']))
    return sorted(out)
