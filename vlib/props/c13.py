"""C13 - orbital-energy fraction algebra and Fock diagonalisation preserve the value."""
import numpy as np

from ..common import fp, lib_call, rng_for, Refused
from .. import ir

LEVEL = 'exploration'
BATCH = 25
CASE_TIMEOUT = 300
RULE = ("generated terms remainder x (sum c_k e_k) / prod (+-e.. )^n (0-3 brackets, "
        "exponents <= 3, rational numerator coefficients, remainders with "
        "symmetries, explicit contracted/target split), on which split+recombine, "
        "canonicalize_sign, permute_num, cancel_orb_energy_frac, symbolic <-> "
        "explicit denominators (model D := 1/(sum e_upper - sum e_lower)), "
        "factor_eri_parts / factor_denom (multi-term), diagonalize_fock (f = "
        "diag(e)) and block_diagonalize_fock (f_ov = 0) are applied; every result "
        "compared in value on all target assignments. Documented refusals are "
        "counted. non-trivial: the operation changed the expression; distinct by "
        "(operation, remainder shape, bracket pattern).")
ASSUMPTIONS = ["real orbital basis (bra-ket symmetric f, V)",
               "orbital-energy brackets non-zero mod p (model re-drawn otherwise)"]

OPS = ['expr', 'canon', 'canon_denom', 'permute', 'cancel', 'symbolic']


def floors(tier):
    q = {'operations_checked': 600, 'changed_results': 150,
         'cancel_changed': 20, 'group_cases': 40, 'fock_cases': 60,
         'symbolic_roundtrips': 60}
    if tier == 'thorough':
        q = {k: v * 5 for k, v in q.items()}
    return q


def _bracket(r, occ, virt, exp_sign=-1):
    no = r.randint(0, min(3, len(occ)))
    nv = r.randint(0, min(3, len(virt)))
    if no + nv == 0:
        return None
    so, sv = r.choice([('1', '-1'), ('-1', '1')])
    if r.random() < 0.1:
        sv = so   # unusual: all with the same sign
    e = [[so, s] for s in r.sample(occ, no)] + [[sv, s] for s in
                                                 r.sample(virt, nv)]
    r.shuffle(e)
    return {'t': 'br', 'e': e, 'exp': exp_sign * r.choice([1, 1, 1, 2, 3])}


def _frac_term(r, g, targets=None, nobj=None, names=None):
    t = g.term(targets=targets, nobj=nobj or r.randint(1, 3), names=names)
    if t is None:
        return None
    idxs = sorted(ir.term_indices(t))
    occ = [s for s in idxs if ir.index_space(ir.split_index(s)[0]) == 'occ']
    virt = [s for s in idxs if ir.index_space(ir.split_index(s)[0]) == 'virt']
    objs = list(t['objs'])
    for _ in range(r.choice([0, 1, 1, 2, 2, 3])):
        b = _bracket(r, occ, virt)
        if b is not None and len(b['e']) >= 2:
            objs.append(b)
    brs = [o for o in objs if o['t'] == 'br']
    if brs and r.random() < 0.35:
        # numerator = sum_k n_k * (bracket_k): cancels against several brackets,
        # each with its own rescaling
        coef = {}
        for b in brs:
            nk = r.choice([1, 1, 2, 2, 3])
            if r.random() < 0.2:
                nk = -nk
            for c, s_ in b['e']:
                coef[s_] = coef.get(s_, 0) + nk * int(c)
        if r.random() < 0.5 and idxs:
            # left-over part: the numerator cancels only partially
            for s_ in r.sample(idxs, r.randint(1, min(2, len(idxs)))):
                coef[s_] = coef.get(s_, 0) + r.choice([1, -1, 2, -2])
        if r.random() < 0.3:
            # common factor that has to be pulled out of the numerator
            fac = r.choice([2, 3, -2])
            coef = {s_: v * fac for s_, v in coef.items()}
        num = [[str(v), s_] for s_, v in coef.items() if v]
        if num:
            objs.append({'t': 'br', 'e': num, 'exp': 1})
    elif r.random() < 0.6 and idxs:
        k = r.randint(1, min(4, len(idxs)))
        num = [[r.choice(['1', '-1', '1', '-1', '2', '1/2', '-3']), s]
               for s in r.sample(idxs, k)]
        objs.append({'t': 'br', 'e': num, 'exp': 1})
    return {'pref': t['pref'], 'objs': objs}


def gen_cases(tier, seed):
    from ..gen import ExprGen, CATALOGUE
    r = rng_for(seed, 'C13', tier)
    n = 700 if tier == 'quick' else 6000
    cat = [c for c in CATALOGUE if c['name'] not in ('w', 's')]
    cases = []
    for k in range(n):
        kind = r.choices(['frac', 'group', 'fock'], [6, 2, 3])[0]
        # Fock (block-)diagonalisation also with general indices (f_pq spans all
        # blocks: it must not be treated as an off-diagonal block)
        g = ExprGen(r, cat, general=0.25 if kind == 'fock' else 0.0, symbols=0.0,
                    hyper=0.0, exponents=0.25 if kind == 'fock' else 0.0)
        cid = f'C13-{tier[0]}{seed}-{k:05d}-{kind}'
        base = {'id': cid, 'kind': kind, 'mseed': r.randrange(1 << 30),
                'dims': list(r.choice([(2, 2), (2, 3), (3, 2)]))}
        if kind == 'frac' and r.random() < 0.08:
            # numerator = n1*A + n2*B over the denominator A^p B^q with two disjoint
            # brackets and weights that need two successive rescalings
            objs = [{'t': 'anti', 'name': 'V', 'up': ['i', 'j'],
                     'lo': ['a', 'b'], 'bk': 0},
                    {'t': 'non', 'name': 'z', 'up': ['k', 'c']}]
            if r.random() < 0.5:
                objs.append({'t': 'non', 'name': 'x',
                             'up': r.sample(['i', 'j', 'a', 'b', 'k', 'c'],
                                            r.randint(1, 3))})
            A = [['1', 'i'], ['1', 'j'], ['-1', 'a'], ['-1', 'b']]
            B = [['1', 'k'], ['-1', 'c']]
            if r.random() < 0.3:
                A, B = B, A
            n1, n2 = r.choice([(2, 1), (3, 1), (3, 2), (4, 2), (-2, 1), (2, -1),
                               (1, 2), (1, 3)])
            objs.append({'t': 'br', 'e': A, 'exp': -r.choice([1, 1, 2])})
            objs.append({'t': 'br', 'e': B, 'exp': -r.choice([1, 1, 2])})
            num = [[str(n1 * int(c_)), s_] for c_, s_ in A] + \
                  [[str(n2 * int(c_)), s_] for c_, s_ in B]
            objs.append({'t': 'br', 'e': num, 'exp': 1})
            t = {'pref': r.choice(['1', '-1/2', '2/3', '3']), 'objs': objs}
            tg_ = ir.term_targets({'objs': [o for o in objs if o['t'] != 'br']})
            base.update(terms=[t], targets=r.sample(tg_, r.randint(0, len(tg_))))
            cases.append(base)
            continue
        if kind == 'frac' and r.random() < 0.08:
            # a remainder that is antisymmetric under a contracted permutation
            # which leaves the denominator unchanged, and a numerator that is
            # not symmetric in the permuted indices
            big = r.choice(['V', 'd'])
            objs = [{'t': 'anti', 'name': big, 'up': ['i', 'j'],
                     'lo': ['a', 'b'], 'bk': 0},
                    {'t': 'non', 'name': 'z', 'up': ['i']},
                    {'t': 'non', 'name': 'z', 'up': ['j']}]
            tgs = ['a', 'b']
            if r.random() < 0.5:
                objs.append({'t': 'non', 'name': 'x', 'up': ['a', 'b']})
                tgs = []
            den = [['1', 'i'], ['1', 'j'], ['-1', 'a'], ['-1', 'b']]
            objs.append({'t': 'br', 'e': den, 'exp': -r.choice([1, 1, 2])})
            if r.random() < 0.3:
                objs.append({'t': 'br', 'e': [['1', 'i'], ['1', 'j']],
                             'exp': -1})
            num = [[r.choice(['1', '2', '-1', '1/2']), 'i']]
            if r.random() < 0.4:
                num.append([r.choice(['1', '-1']), r.choice(['a', 'j'])])
            objs.append({'t': 'br', 'e': num, 'exp': 1})
            t = {'pref': r.choice(['1', '-1/2', '2/3']), 'objs': objs}
            base.update(terms=[t], targets=tgs)
            cases.append(base)
            continue
        if kind == 'frac':
            t = _frac_term(r, g)
            if t is None:
                continue
            tg = ir.term_targets({'objs': [o for o in t['objs']
                                           if o['t'] != 'br']})
            base.update(terms=[t], targets=r.sample(tg, r.randint(0, len(tg))))
        elif kind == 'group' and r.random() < 0.15:
            # several reference terms with unsymmetric remainders and different
            # denominators plus one term whose remainder is symmetric in the
            # indices its denominator could sit on: a permutation that leaves
            # that remainder invariant maps its denominator onto more than one
            # reference (the term must still land in exactly one group)
            if r.random() < 0.5:
                S_, o_ = r.sample(['i', 'j', 'k', 'l'], r.choice([2, 3, 3])), 'a'
                sg = ('1', '-1')
            else:
                S_, o_ = r.sample(['a', 'b', 'c', 'd'], r.choice([2, 3, 3])), 'i'
                sg = ('-1', '1')
            m = r.choice([1, 1, 2])
            two = r.random() < 0.3   # a second spectator index in the fraction

            def br(x):
                e_ = [[sg[0], x], [sg[1], o_]]
                if two:
                    e_.append([sg[1], 'j' if o_ == 'i' else 'b'])
                return {'t': 'br', 'e': e_, 'exp': -m}
            spect = [{'t': 'non', 'name': 'v', 'up': [o_]}]
            if two:
                spect.append({'t': 'non', 'name': 'v',
                              'up': ['j' if o_ == 'i' else 'b']})
            terms = []
            for x in r.sample(S_, r.randint(2, len(S_))):
                terms.append({'pref': r.choice(['5', '7', '-2', '1/3', '1']),
                              'objs': [{'t': 'non', 'name': 'x', 'up': [x]},
                                       {'t': 'non', 'name': 'y', 'up': [x]}]
                              + spect + [br(x)]})
            symobjs = []
            for x in S_:
                symobjs += [{'t': 'non', 'name': 'x', 'up': [x]},
                            {'t': 'non', 'name': 'y', 'up': [x]}]
            terms.append({'pref': r.choice(['1', '-1', '3/2']),
                          'objs': symobjs + spect + [br(r.choice(S_))]})
            r.shuffle(terms)
            base.update(terms=terms, targets=[], structured='sym_remainder')
        elif kind == 'group':
            first = _frac_term(r, g)
            if first is None:
                continue
            rem = [o for o in first['objs'] if o['t'] != 'br']
            tg = ir.term_targets({'objs': rem})
            terms = [first]
            idxs = sorted(ir.term_indices({'objs': rem}))
            occ = [s for s in idxs if s[0] in 'ijklmno']
            virt = [s for s in idxs if s[0] in 'abcdefgh']
            for _ in range(r.randint(1, 3)):
                x = r.random()
                if x < 0.45:   # same remainder, other fraction
                    objs = list(rem)
                    for _ in range(r.randint(0, 2)):
                        b = _bracket(r, occ, virt)
                        if b and len(b['e']) >= 2:
                            objs.append(b)
                    terms.append({'pref': r.choice(['1', '-1', '2', '1/3']),
                                  'objs': objs})
                elif x < 0.8:  # same denominator, other remainder
                    t2 = g.term(targets=tg, nobj=r.randint(1, 3))
                    if t2 is None:
                        continue
                    i2 = sorted(ir.term_indices(t2))
                    brs = [o for o in first['objs'] if o['t'] == 'br'
                           and o['exp'] < 0
                           and all(s in i2 for _, s in o['e'])]
                    terms.append({'pref': t2['pref'], 'objs': t2['objs'] + brs})
                else:
                    t2 = _frac_term(r, g, targets=tg)
                    if t2 is not None:
                        terms.append(t2)
            base.update(terms=terms, targets=tg)
        else:
            if r.random() < 0.25:
                # several Fock elements that share indices (chains f_ij f_jk,
                # fans f_ij f_ik, rings): the substitutions of the elements
                # interact
                sp = r.choice(['occ', 'virt'])
                pool = {'occ': ['i', 'j', 'k', 'l', 'm'],
                        'virt': ['a', 'b', 'c', 'd', 'e']}[sp]
                xs = r.sample(pool, r.randint(3, 4))
                shape = r.choice(['chain', 'chain', 'fan', 'ring'])
                pairs = {'chain': [(xs[q], xs[q + 1])
                                   for q in range(len(xs) - 1)][:r.randint(2, 3)],
                         'fan': [(xs[0], xs[1]), (xs[0], xs[2])],
                         'ring': [(xs[0], xs[1]), (xs[1], xs[0])]}[shape]
                objs = []
                for a_, b_ in pairs:
                    if r.random() < 0.5:
                        a_, b_ = b_, a_
                    objs.append({'t': 'anti', 'name': 'f', 'up': [a_],
                                 'lo': [b_], 'bk': 0})
                on = sorted({q for pq in pairs for q in pq})
                ends = r.sample(on, r.randint(1, len(on)))
                objs.append({'t': 'non', 'name': 'x', 'up': ends})
                if r.random() < 0.4:
                    objs.append({'t': 'non', 'name': 'y',
                                 'up': r.sample(on, r.randint(1, 2))})
                first = {'pref': r.choice(['1', '-1', '1/2']), 'objs': objs}
                tg = ir.term_targets(first)
                base.update(terms=[first], targets=tg, op='diag')
                cases.append(base)
                continue
            names = ['f', 'f', 'V', 't1', 't2', 'X', 'd', 'x']
            nterms = r.randint(1, 3)
            plain = r.random() < 0.7   # diagonalisation refuses polynoms
            first = g.term(names=names, nobj=r.randint(1, 3)) if plain else \
                _frac_term(r, g, names=names, nobj=r.randint(1, 3))
            if first is None:
                continue
            if not any(o.get('name') == 'f' for o in first['objs']):
                if r.random() < 0.8:
                    continue
            tg = ir.term_targets({'objs': [o for o in first['objs']
                                           if o['t'] != 'br']})
            terms = [first]
            for _ in range(nterms - 1):
                t2 = g.term(targets=tg, names=names) if plain else \
                    _frac_term(r, g, targets=tg, names=names)
                if t2 is not None:
                    terms.append(t2)
            base.update(terms=terms, targets=tg,
                        op=r.choice(['diag', 'diag', 'block']))
        cases.append(base)
    return cases


def denom_model(n_o, n_v, mseed, p=None, fock='random'):
    """model with the symbolic denominator D := 1/(sum e_upper - sum e_lower)"""
    from .. import tm
    p = p or tm.PRIMES[0]

    def D(model, ud, ld):
        shape = tuple(len(d) for d in list(ud) + list(ld))
        tot = np.zeros(shape, dtype=np.int64)
        k = 0
        for d in ud:
            sh = [1] * len(shape)
            sh[k] = len(d)
            tot = tot + model.e[d].reshape(sh)
            k += 1
        for d in ld:
            sh = [1] * len(shape)
            sh[k] = len(d)
            tot = tot - model.e[d].reshape(sh)
            k += 1
        return model.F.pow_arr(tot % model.p, -1)
    m = tm.Model(n_o, n_v, seed=mseed, p=p, sym={'V': 1, 'f': 1},
                 explicit={'D': D},
                 alias={f't{n}cc': f't{n}' for n in range(1, 5)})
    if fock == 'diag':
        m.explicit[('f', 1, 1)] = np.diag(m.e) % p
    elif fock == 'block':
        f = m.derive(explicit={}).full('anti', 'f', 1, 1).copy()
        f[:n_o, n_o:] = 0
        f[n_o:, :n_o] = 0
        m.explicit[('f', 1, 1)] = f
    return m


def run_case(case, res):
    from adcgen import Expr, EriOrbenergy
    from adcgen.reduce_expr import factor_eri_parts, factor_denom
    from .. import tm
    e = ir.mk_expr(case['terms'])
    if e == 0 or e.is_number:
        res.skip('zero input')
        return
    tgt = [ir.mk_index(s) for s in case['targets']]
    n_o, n_v = case['dims']
    kind = case['kind']
    fock = {'diag': 'diag', 'block': 'block'}.get(case.get('op'), 'random')
    model = denom_model(n_o, n_v, case['mseed'], fock=fock)
    ev = tm.Evaluator(model)
    try:
        E = Expr(e, real=True, target_idx=tgt)
        v0 = ev.value(E.sympy, tgt)
    except tm.ModelUnusable:
        res.count('model_retry')
        res.skip('bracket vanished mod p')
        return
    res.fingerprint = fp(kind, case.get('op'), _shape(case['terms']))
    observed = {'input': str(E)[:300], 'targets': case['targets'], 'ops': {}}
    res.observed = observed

    def compare(label, out, ev_=ev):
        res.count('operations_checked')
        v1 = ev_.value(out, tgt)
        size = int(v1.size)
        res.count('points_compared', size)
        if not np.array_equal(v0, v1):
            m2 = denom_model(n_o, n_v, case['mseed'], p=tm.PRIMES[1], fock=fock)
            e2 = tm.Evaluator(m2)
            try:
                if np.array_equal(e2.value(E.sympy, tgt), e2.value(out, tgt)):
                    res.count('prime_collisions')
                    return True
            except tm.ModelUnusable:
                pass
            res.violation(f'{label} changed the value: {E}  ->  '
                          f'{str(out)[:500]} (targets {case["targets"]})',
                          tags=_tags(label))
            return False
        return True

    def attempt(label, fn):
        try:
            out = lib_call(fn, refusals=('Inputerror', 'NotImplementedError',
                                         'RuntimeError'))
        except Refused as ex:
            res.count('refused')
            observed['ops'][label] = f'refused: {str(ex)[:80]}'
            res.count('refused_' + str(ex).split(':')[0] + '_' + label.split('(')[0])
            return None
        return out

    if kind == 'frac':
        term = E.terms[0] if len(E) == 1 else None
        if term is None:
            res.skip('not a single term after construction')
            return
        for op in OPS:
            def run(op=op):
                eo = EriOrbenergy(E.terms[0])
                if op == 'expr':
                    return eo.expr
                if op == 'canon':
                    return eo.canonicalize_sign().expr
                if op == 'canon_denom':
                    return eo.canonicalize_sign(only_denom=True).expr
                if op == 'permute':
                    return eo.permute_num().expr
                if op == 'cancel':
                    return eo.cancel_orb_energy_frac()
                if op == 'symbolic':
                    return E.copy().use_symbolic_denominators()
            out = attempt(op, run)
            if out is None:
                continue
            changed = (out.sympy - E.sympy).expand() != 0 \
                if op != 'symbolic' else out.sympy != E.sympy
            if changed:
                res.count('changed_results')
                res.nontrivial = True
                if op == 'cancel':
                    res.count('cancel_changed')
            observed['ops'][op] = str(out)[:160]
            if not compare(op, out.sympy):
                return
            if op == 'symbolic':
                back = attempt('explicit', lambda: out.copy()
                               .use_explicit_denominators())
                if back is not None:
                    res.count('symbolic_roundtrips')
                    if not compare('use_explicit_denominators(use_symbolic_'
                                   'denominators(.))', back.sympy):
                        return
                    if back.antisym_tensors and 'D' in back.antisym_tensors:
                        res.violation('use_explicit_denominators keeps D in the '
                                      'assumptions')
        return
    if kind == 'group':
        res.count('group_cases')
        for label, fn in (('factor_eri_parts', factor_eri_parts),
                          ('factor_denom', factor_denom)):
            parts = attempt(label, lambda fn=fn: fn(E.copy()))
            if parts is None:
                continue
            tot = 0
            for part in parts:
                tot = tot + part.sympy
            if len(parts) < len(E):
                res.count('changed_results')
                res.nontrivial = True
            observed['ops'][label] = f'{len(E)} terms -> {len(parts)} parts'
            if not compare(f'sum of {label}', tot):
                return
        return
    if kind == 'fock':
        res.count('fock_cases')
        op = case['op']
        if op == 'diag':
            out = attempt('diagonalize_fock',
                          lambda: E.copy().diagonalize_fock())
        else:
            out = attempt('block_diagonalize_fock',
                          lambda: E.copy().block_diagonalize_fock())
        if out is None:
            return
        if out.sympy != E.sympy:
            res.count('changed_results')
            res.nontrivial = True
        observed['ops'][op] = str(out)[:200]
        if not compare(f'{op}onalize_fock', out.sympy):
            return
        if op == 'diag':
            got = out.provided_target_idx
            if got is None or set(got) != set(tgt):
                res.violation(f'diagonalize_fock lost the target indices: '
                              f'{tgt} -> {got}')
        return


def _tags(label):
    return []


def _shape(terms):
    out = []
    for t in terms:
        out.append(sorted((o['t'], o.get('name', ''), len(o.get('up', [])),
                           len(o.get('lo', [])), o.get('exp', 1),
                           len(o.get('e', []))) for o in t['objs']))
    return sorted(out)
