"""C01 - Wick evaluation equals the Fermi-vacuum expectation value.

Oracle: brute-force <Phi0| string |Phi0> on concrete spin orbitals (vlib.fock)
times TM tensor values, for every orbital assignment.
"""
import itertools

import numpy as np

from ..common import fp, lib_call, rng_for
from .. import ir

LEVEL = 'exploration'
BATCH = 20
CASE_TIMEOUT = 240
RULE = ("generated operator products (2-10 operators, creators/annihilators "
        "interleaved at random or shuffled from complete pairings, occ/virt/"
        "general indices with repeats, 0-3 NO groups, coefficient tensors, rule "
        "sets) evaluated by adcgen.wicks and compared on every orbital assignment "
        "with the determinant-space vacuum expectation value; plus sampled "
        "internal wicks calls of real derivations. non-trivial: the reference is "
        "non-zero for >= 1 assignment and the string has >= 2 contractions (>= 4 "
        "operators); distinct by (operator pattern, space pattern, NO layout, "
        "coefficient kind, flags).")
ASSUMPTIONS = [
    "F_p arithmetic is a faithful image of rational arithmetic (re-checked with "
    "a second prime on disagreement)",
    "sympy.physics.secondquant F/Fd/NO constructors build what they print",
]


def floors(tier):
    q = {'direct_wicks_calls': 100, 'points_compared': 5000,
         'nonzero_reference_points': 200, 'internal_wicks_checked': 5,
         'rules_cases': 10, 'no_group_cases': 20}
    if tier == 'thorough':
        q = {k: v * 5 for k, v in q.items()}
    return q


MODELS = [(2, 2), (2, 3), (3, 2)]
POOL = {'occ': ['i', 'j', 'k'], 'virt': ['a', 'b', 'c'],
        'general': ['p', 'q', 'r']}


def _gen_ops(r, maxops):
    """structured: contractible pairs (a+_occ .. a_occ / a_virt .. a+_virt / general
    either way), merged at random preserving the order inside a pair, so that the
    vacuum expectation value is non-zero for some orbital assignment; random:
    anything."""
    x = r.random()
    if x < 0.8:
        npairs = min(r.choice([1, 2, 2, 3, 3, 4, 4, 5]), maxops // 2)
        pairs = []
        for _ in range(npairs):
            sp1 = r.choice(['occ', 'virt', 'general'])
            sp2 = r.choice([sp1, sp1, 'general'])
            if r.random() < 0.5:
                sp1, sp2 = sp2, sp1
            i1 = r.choice(POOL[sp1])
            i2 = i1 if (sp1 == sp2 and r.random() < 0.3) else r.choice(POOL[sp2])
            kinds = {sp1, sp2}
            if 'occ' in kinds:
                order = ['c', 'a']
            elif 'virt' in kinds:
                order = ['a', 'c']
            else:
                order = r.choice([['c', 'a'], ['a', 'c']])
            pairs.append([[order[0], i1], [order[1], i2]])
        ops = []
        pos = [0] * len(pairs)
        while any(p < 2 for p in pos):
            k = r.choice([n for n, p in enumerate(pos) if p < 2])
            ops.append(pairs[k][pos[k]])
            pos[k] += 1
        if x > 0.7:  # a few almost-structured strings
            r.shuffle(ops)
    else:
        n = min(r.choice([2, 3, 4, 4, 6, 6, 8]), maxops)
        ops = [[r.choice('ca'),
                r.choice(POOL[r.choice(['occ', 'virt', 'general'])])]
               for _ in range(n)]
    return ops


def _gen_case(r, cid, tier, known_bucket=False):
    maxops = 8 if tier == 'quick' else 10
    ops = _gen_ops(r, maxops)
    # cap the number of distinct indices (reference cost N^k)
    while len({s for _, s in ops}) > 7:
        ops = _gen_ops(r, maxops)
    groups = []
    k = 0
    while k < len(ops):
        ln = r.choice([1, 1, 2, 2, 3, 4])
        grp = ops[k:k + ln]
        k += ln
        groups.append([bool(r.random() < 0.4 and len(grp) > 1), grp])
    cnt = {}
    for _, s in ops:
        cnt[s] = cnt.get(s, 0) + 1
    idxs = sorted(cnt)
    mode = r.choice(['pointwise', 'einstein', 'einstein', 'rules'])
    must = [s for s in idxs if cnt[s] >= 2]
    opt = [s for s in idxs if cnt[s] == 1]
    if mode == 'pointwise':
        on_tensor = [s for s in idxs if r.random() < 0.6]
        flag = False
    else:
        on_tensor = must + [s for s in opt if r.random() < 0.6]
        flag = r.random() < 0.6
        if not known_bucket:
            # F13 (open): keep general *target* indices with delta evaluation in
            # the separate known-finding bucket
            if flag:
                on_tensor += [s for s in opt if s not in on_tensor
                              and ir.index_space(s) == 'general']
        elif flag is False:
            flag = True
    r.shuffle(on_tensor)
    coeffs = []
    rest = list(on_tensor)
    while rest:
        kind = r.choice(['non', 'non', 'anti', 'sym', 'anti'])
        n = r.randint(1, min(4, len(rest)))
        chunk, rest = rest[:n], rest[n:]
        if kind == 'non':
            coeffs.append({'t': 'non', 'name': r.choice(['c', 'x']),
                           'up': chunk})
        else:
            h = r.randint(0, len(chunk))
            coeffs.append({'t': kind, 'name': r.choice(['V', 'w', 'f']),
                           'up': chunk[:h], 'lo': chunk[h:],
                           'bk': 0})
    rules = None
    if mode == 'rules' and coeffs and r.random() < 0.5:
        # several tensors of one name in a term, exactly some of their blocks
        # excluded (a rule must look at every tensor of the name)
        kind = r.choice(['non', 'anti', 'sym'])
        name = r.choice(['c', 'V', 'f'])
        for c in coeffs:
            idx = c['up'] + c.get('lo', [])
            c.clear()
            c.update({'t': kind, 'name': name, 'up': idx})
            if kind != 'non':
                h = r.randint(0, len(idx))
                c.update({'up': idx[:h], 'lo': idx[h:], 'bk': 0})
        present = sorted({''.join(ir.index_space(s)[0] for s in
                                  c['up'] + c.get('lo', [])) for c in coeffs})
        rules = {name: r.sample(present, r.randint(1, max(1, len(present) - 1)))}
    elif mode == 'rules' and coeffs:
        rules = {}
        for c in coeffs:
            if r.random() < 0.8:
                n = len(c['up']) + len(c.get('lo', []))
                blocks = set()
                for _ in range(r.randint(1, 3)):
                    blocks.add(''.join(r.choice('ovg' if r.random() < 0.2
                                                else 'ov') for _ in range(n)))
                # the block actually present in the input is an attractive target
                x_ = r.random()
                if x_ < 0.45:
                    blocks.add(''.join(ir.index_space(s)[0] for s in
                                       c['up'] + c.get('lo', [])))
                elif x_ < 0.75 and c.get('lo') is not None:
                    # only the bra-ket transposed partner of the present block is
                    # excluded (a rule set need not be closed under transposition)
                    pres = ''.join(ir.index_space(s)[0] for s in
                                   c['up'] + c['lo'])
                    tb = ''.join(ir.index_space(s)[0] for s in
                                 c['lo'] + c['up'])
                    if tb != pres:
                        blocks = {b_ for b_ in blocks if b_ != pres}
                        blocks.add(tb)
                rules.setdefault(c['name'], sorted(blocks))
        if not rules:
            rules = None
            mode = 'einstein'
    n_o, n_v = r.choice(MODELS)
    return {'id': cid, 'mode': mode, 'groups': groups, 'coeffs': coeffs,
            'flag': flag, 'rules': rules, 'model': [n_o, n_v],
            'mseed': r.randrange(1 << 30)}


PIPELINES = [
    ('gs_energy_2', 40), ('gs_amp_2_ph', 30), ('precursor_1_ph', 30),
    ('gs_energy_re_2', 60), ('isr_matrix_pp_1', 60),
]


def gen_cases(tier, seed):
    n = 520 if tier == 'quick' else 5000
    cases = []
    r = rng_for(seed, 'C01', tier)
    for k in range(n):
        cases.append(_gen_case(r, f'C01-{tier[0]}{seed}-{k:05d}', tier))
    for k in range(12 if tier == 'quick' else 60):
        c = _gen_case(r, f'C01-{tier[0]}{seed}-kf{k:03d}', tier,
                      known_bucket=True)
        cases.append(c)
    # rule sets that are not closed under bra-ket transposition: only the block
    # that is NOT present is excluded, the term must survive
    for q, (up, lo, blk) in enumerate([(['a'], ['i'], 'ov'), (['i'], ['a'], 'vo'),
                                       (['a', 'b'], ['i', 'j'], 'oovv')]):
        if len(up) == 1:
            ops = [['c', up[0]], ['a', lo[0]], ['c', lo[0] + '1'],
                   ['a', up[0] + '1']]
            coeffs = [{'t': 'anti', 'name': 'f', 'up': up, 'lo': lo, 'bk': 0},
                      {'t': 'non', 'name': 'x',
                       'up': [lo[0] + '1', up[0] + '1']}]
        else:
            ops = [['c', 'a'], ['c', 'b'], ['a', 'j'], ['a', 'i'],
                   ['c', 'i1'], ['c', 'j1'], ['a', 'b1'], ['a', 'a1']]
            coeffs = [{'t': 'anti', 'name': 'V', 'up': up, 'lo': lo, 'bk': 0},
                      {'t': 'non', 'name': 'x',
                       'up': ['i1', 'j1', 'a1', 'b1']}]
        for flag in (True, False):
            cases.append({'id': f'C01-{tier[0]}{seed}-rules-open-{q}{int(flag)}',
                          'mode': 'rules', 'groups': [[False, ops]],
                          'coeffs': coeffs, 'flag': flag,
                          'rules': {coeffs[0]['name']: [blk]},
                          'model': [2, 2], 'mseed': 999 + q})
    # fixed exhibit of the open finding F13: wicks(c_r a+_r a_q, deltas evaluated)
    cases.append({'id': f'C01-{tier[0]}{seed}-kf-exhibit', 'mode': 'einstein',
                  'groups': [[False, [['c', 'r'], ['a', 'q']]]],
                  'coeffs': [{'t': 'non', 'name': 'c', 'up': ['r']}],
                  'flag': True, 'rules': None, 'model': [2, 2], 'mseed': 12345})
    pls = PIPELINES
    for name, cost in pls:
        cases.append({'id': f'C01-{tier[0]}{seed}-pipe-{name}', 'mode': 'pipeline',
                      'pipeline': name, 'cost': cost, 'timeout': 1200,
                      'sample': 1,
                      'mseed': r.randrange(1 << 30)})
    return cases


# ---------------------------------------------------------------------------------
def _build(case):
    from sympy import Mul, S
    from sympy.physics.secondquant import F, Fd, NO
    facs = []
    for is_no, g in case['groups']:
        m = Mul(*[Fd(ir.mk_index(s)) if k == 'c' else F(ir.mk_index(s))
                  for k, s in g])
        if is_no:
            m = NO(m)
        facs.append(m)
    ops = Mul(*facs)
    coeff = S.One
    for c in case['coeffs']:
        coeff = coeff * ir.mk_obj(c)
    return ops, coeff


def _reference(fs, groups, asg):
    flat = []
    sign = 1
    for is_no, g in groups:
        o_ = [(k, asg[s]) for k, s in g]
        if is_no:
            sg, o_ = fs.normal_order(o_)
            sign *= sg
        flat += o_
    return sign * fs.vev(flat)


def _tags(case):
    tags = []
    cnt = {}
    for _, g in case['groups']:
        for _, s in g:
            cnt[s] = cnt.get(s, 0) + 1
    on_t = {s for c in case['coeffs'] for s in ir.obj_index_list(c)}
    if case['flag'] and any(ir.index_space(s) == 'general' and n == 1
                            and s not in on_t for s, n in cnt.items()):
        tags.append('general_target_index_with_delta_evaluation')
    return tags


def run_case(case, res):
    if case['mode'] == 'pipeline':
        return run_pipeline(case, res)
    from sympy import S
    from sympy.physics.secondquant import FermionicOperator, NO
    from adcgen import wicks
    from adcgen.rules import Rules
    from .. import tm, fock
    try:
        ops, coeff = _build(case)
    except Exception as ex:  # sympy refused to build the input
        res.skip(f'input not constructible: {type(ex).__name__}')
        return
    expr = ops * coeff
    if expr is S.Zero:
        res.count('input_zero')
    n_o, n_v = case['model']
    model = tm.Model(n_o, n_v, seed=case['mseed'])
    ev = tm.Evaluator(model)
    fs = fock.Fock(n_o, n_v, model.p)
    flag = case['flag']
    tags = _tags(case)
    rules = Rules(case['rules']) if case['rules'] else None
    out = lib_call(wicks, expr, rules=None, simplify_kronecker_deltas=flag,
                   refusals=('NotImplementedError',), tags=tags)
    res.count('direct_wicks_calls')
    if any(g[0] for g in case['groups']):
        res.count('no_group_cases')
    if out.atoms(FermionicOperator) or out.atoms(NO):
        res.violation(f'operators left in the result of wicks({expr}): {out}',
                      tags)
        return
    idx_names = sorted({s for _, g in case['groups'] for _, s in g}
                       | {s for c in case['coeffs']
                          for s in ir.obj_index_list(c)})
    sym = {s: ir.mk_index(s) for s in idx_names}
    cnt = {}
    for _, g in case['groups']:
        for _, s in g:
            cnt[s] = cnt.get(s, 0) + 1
    on_t = {s for c in case['coeffs'] for s in ir.obj_index_list(c)}
    if case['mode'] == 'pointwise':
        free = idx_names
    else:
        free = [s for s in idx_names if cnt.get(s, 0) == 1 and s not in on_t]
    summed = [s for s in idx_names if s not in free]
    free_i = [sym[s] for s in free]
    val = ev.value(out, free_i)
    # reference --------------------------------------------------------------
    call = [sym[s] for s in idx_names]
    if coeff is S.One:
        carr = None
    else:
        carr = ev.value(coeff, call)   # pointwise: all indices free
    doms = {s: model.domain(sym[s]) for s in idx_names}
    ref = np.zeros(val.shape, dtype=object)
    nz = 0
    pos_of = {s: {int(o): k for k, o in enumerate(doms[s])} for s in idx_names}
    for fpos in itertools.product(*[range(len(doms[s])) for s in free]):
        tot = 0
        asg = {s: int(doms[s][k]) for s, k in zip(free, fpos)}
        for spos in itertools.product(*[range(len(doms[s])) for s in summed]):
            asg.update({s: int(doms[s][k]) for s, k in zip(summed, spos)})
            v = _reference(fs, case['groups'], asg)
            if v:
                cv = 1 if carr is None else int(
                    carr[tuple(pos_of[s][asg[s]] for s in idx_names)])
                tot += v * cv
        ref[fpos] = tot % model.p
        if ref[fpos]:
            nz += 1
    ref = ref.astype(np.int64)
    res.count('points_compared', int(ref.size))
    res.count('nonzero_reference_points', nz)
    nops = sum(len(g) for _, g in case['groups'])
    res.nontrivial = bool(nz and nops >= 4)
    res.fingerprint = fp([[n, [[k, ir.index_space(s)] for k, s in g]]
                          for n, g in case['groups']],
                         [[c['t'], len(ir.obj_index_list(c))]
                          for c in case['coeffs']], case['mode'], flag,
                         bool(case['rules']))
    res.observed = {'input': str(expr), 'result': str(out)[:300],
                    'free': free, 'nonzero_reference_points': nz}
    if not np.array_equal(val % model.p, ref):
        # re-evaluate under the second prime before reporting
        m2 = model.derive(p=tm.PRIMES[1])
        if _recheck(case, m2, out, coeff, free, summed, idx_names, sym):
            bad = np.argwhere(val % model.p != ref)[0]
            res.violation(
                f'wicks({expr}, simplify_kronecker_deltas={flag}) = {out} '
                f'differs from the determinant-space value at free={free} '
                f'position {bad.tolist()}: library {int(val[tuple(bad)])} '
                f'reference {int(ref[tuple(bad)])} (mod {model.p})', tags)
            return
        res.count('prime_collisions')
    # (c) delta evaluation must not change the value (other flag)
    if case['mode'] != 'pointwise':
        out2 = lib_call(wicks, expr, rules=None,
                        simplify_kronecker_deltas=not flag,
                        refusals=('NotImplementedError',), tags=tags)
        res.count('direct_wicks_calls')
        tags2 = list(tags)
        if not flag:
            c2 = dict(case, flag=True)
            tags2 = _tags(c2)
        v2 = ev.value(out2, free_i)
        if not np.array_equal(v2 % model.p, val % model.p):
            res.violation(
                f'wicks({expr}) changes value with simplify_kronecker_deltas: '
                f'{out}  vs  {out2}', tags2)
            return
    # (d) rules remove exactly the terms with an excluded block
    if rules is not None:
        res.count('rules_cases')
        out_r = lib_call(wicks, expr, rules=rules,
                         simplify_kronecker_deltas=flag,
                         refusals=('NotImplementedError',), tags=tags)
        res.count('direct_wicks_calls')
        mine, removed = _filter_blocks(out, case['rules'])
        if removed:
            res.count('rules_terms_removed', removed)
        v_lib = ev.value(out_r, free_i)
        v_mine = ev.value(mine, free_i)
        if not np.array_equal(v_lib, v_mine):
            res.violation(
                f'rules {case["rules"]} on wicks({expr}): library kept {out_r},'
                f' expected {mine}', tags)
            return
        # no surviving term may hold a tensor in an excluded block (a term count
        # comparison with the filtered rule-free result is not sound: terms that
        # cancel in the rule-free sum may survive when only one of them is
        # excluded)
        _, still = _filter_blocks(out_r, case['rules']) if out_r != 0 else (0, 0)
        if still:
            res.violation(
                f'rules {case["rules"]} on wicks({expr}): {still} term(s) of the '
                f'result {out_r} hold a tensor in an excluded block', tags)


def _recheck(case, m2, out, coeff, free, summed, idx_names, sym):
    """same comparison under another prime; True if it still disagrees"""
    from sympy import S
    from .. import tm, fock
    ev = tm.Evaluator(m2)
    fs = fock.Fock(m2.n_o, m2.n_v, m2.p)
    val = ev.value(out, [sym[s] for s in free])
    carr = None if coeff is S.One else ev.value(coeff,
                                                [sym[s] for s in idx_names])
    doms = {s: m2.domain(sym[s]) for s in idx_names}
    pos_of = {s: {int(o): k for k, o in enumerate(doms[s])} for s in idx_names}
    for fpos in itertools.product(*[range(len(doms[s])) for s in free]):
        tot = 0
        asg = {s: int(doms[s][k]) for s, k in zip(free, fpos)}
        for spos in itertools.product(*[range(len(doms[s])) for s in summed]):
            asg.update({s: int(doms[s][k]) for s, k in zip(summed, spos)})
            v = _reference(fs, case['groups'], asg)
            if v:
                cv = 1 if carr is None else int(
                    carr[tuple(pos_of[s][asg[s]] for s in idx_names)])
                tot += v * cv
        if tot % m2.p != int(val[fpos]) % m2.p:
            return True
    return False


def _filter_blocks(expr, forbidden):
    """independent syntactic filter: drop every term that holds a tensor whose
    name is ruled and whose block (spaces of its indices in slot order) is
    excluded"""
    from sympy import Add, Mul, Pow, S
    from .. import tm
    expr = expr.expand()
    keep = []
    removed = 0
    for t in tm.terms_of(expr):
        bad = False
        for f in (t.args if isinstance(t, Mul) else (t,)):
            b = f.args[0] if isinstance(f, Pow) else f
            name = getattr(b, 'name', None)
            if name in forbidden and hasattr(b, 'symbol'):
                block = ''.join(s.space[0] for s in tm.obj_indices(b))
                if block in forbidden[name]:
                    bad = True
        if bad:
            removed += 1
        else:
            keep.append(t)
    return (Add(*keep) if keep else S.Zero), removed


# -- internal population: wicks calls of real derivations -----------------------------
def run_pipeline(case, res):
    from adcgen import func as afunc
    from sympy import Mul, Add
    from sympy.physics.secondquant import FermionicOperator, NO
    from .. import tm, fock, monitor
    r = rng_for(case['mseed'], 'pipe')
    every = case['sample']
    state = {'n': 0, 'checked': 0, 'skipped_cost': 0, 'skipped_pre': 0}
    model = tm.Model(2, 2, seed=case['mseed'])
    ev = tm.Evaluator(model)
    fs = fock.Fock(2, 2, model.p)
    violations = []

    def wick_matches_fock_space(expr, rules, simplify_kronecker_deltas, result):
        if not isinstance(expr, Mul) or monitor.in_monitor():
            return True
        ops = [f for f in expr.args if not f.is_commutative]
        if len(ops) < 2 or any(isinstance(f, NO) for f in ops) or \
                not all(isinstance(f, FermionicOperator) for f in ops):
            return True
        state['n'] += 1
        if state['n'] % every:
            return True
        with monitor.guard():
            cnt = tm.count_indices(expr)
            idxs = sorted(cnt, key=tm.idx_key)
            cost = 1
            for s in idxs:
                cost *= len(model.domain(s))
            if cost * len(ops) > 3_000_000:
                state['skipped_cost'] += 1
                return True
            on_tensor = set()
            for f in expr.args:
                if f.is_commutative:
                    on_tensor.update(tm.count_indices(f))
            targets = [s for s in idxs if cnt[s] == 1]
            if any(s not in on_tensor for s in idxs if s not in targets):
                state['skipped_pre'] += 1
                return True
            if rules is not None and not rules.is_empty:
                # rule-free semantics are checked on direct calls
                state['skipped_pre'] += 1
                return True
            coeff = Mul(*[f for f in expr.args if f.is_commutative])
            carr = ev.value(coeff, idxs)
            val = ev.value(result, targets)
            summed = [s for s in idxs if s not in targets]
            doms = {s: model.domain(s) for s in idxs}
            string = [('c' if f.__class__.__name__ == 'CreateFermion'
                       else 'a', f.args[0]) for f in ops]
            for fpos in itertools.product(*[range(len(doms[s]))
                                            for s in targets]):
                tot = 0
                asg = {s: k for s, k in zip(targets, fpos)}
                for spos in itertools.product(*[range(len(doms[s]))
                                                for s in summed]):
                    asg.update(zip(summed, spos))
                    v = fs.vev([(k, int(doms[s][asg[s]])) for k, s in string])
                    if v:
                        tot += v * int(carr[tuple(asg[s] for s in idxs)])
                if tot % model.p != int(val[fpos]):
                    violations.append(
                        f'internal wicks({expr}) = {result}: value differs from'
                        f' the determinant-space value at targets {targets} '
                        f'{fpos}')
                    break
            state['checked'] += 1
        return True

    # wicks recurses through its public name: icontract would only check the
    # outermost call (re-entrancy guard) -> monitor.ensure checks every call
    contract = monitor.ensure(wick_matches_fock_space)
    undo = monitor.rebind(afunc, 'wicks', contract(afunc.wicks))
    try:
        lib_call(_PIPE[case['pipeline']])
    finally:
        undo()
    res.count('internal_wicks_calls', state['n'])
    res.count('internal_wicks_checked', state['checked'])
    res.count('internal_skipped_cost', state['skipped_cost'])
    res.count('internal_skipped_precondition', state['skipped_pre'])
    res.nontrivial = state['checked'] > 0
    res.fingerprint = fp('pipeline', case['pipeline'])
    res.observed = dict(state)
    if monitor.ERRORS:
        res.status = 'harness_error'
        res.detail = monitor.ERRORS[0]
    if violations:
        res.violation(violations[0])


def _p_gs_energy_2():
    from adcgen import GroundState, Operators
    GroundState(Operators('mp')).energy(2)


def _p_gs_amp_2_ph():
    from adcgen import GroundState, Operators
    GroundState(Operators('mp')).amplitude(2, 'ph', 'ia')


def _p_precursor_1_ph():
    from adcgen import GroundState, Operators, IntermediateStates
    isr = IntermediateStates(GroundState(Operators('mp')), 'pp')
    isr.precursor(1, 'ph', 'bra', 'ia')


def _p_gs_energy_re_2():
    from adcgen import GroundState, Operators
    GroundState(Operators('re')).energy(2)


def _p_isr_matrix_pp_1():
    from adcgen import (GroundState, Operators, IntermediateStates,
                        SecularMatrix)
    isr = IntermediateStates(GroundState(Operators('mp')), 'pp')
    SecularMatrix(isr).isr_matrix_block(1, 'ph,ph', 'ia,jb')


_PIPE = {'gs_energy_2': _p_gs_energy_2, 'gs_amp_2_ph': _p_gs_amp_2_ph,
         'precursor_1_ph': _p_precursor_1_ph,
         'gs_energy_re_2': _p_gs_energy_re_2,
         'isr_matrix_pp_1': _p_isr_matrix_pp_1}
