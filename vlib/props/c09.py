"""C09 - Kronecker-delta evaluation preserves the value and keeps index information."""
import numpy as np

from ..common import fp, lib_call, rng_for
from .. import ir

LEVEL = 'exploration'
BATCH = 40
CASE_TIMEOUT = 200
RULE = ("generated terms: 1-3 tensors / operators plus 1-4 (thorough 6) Kronecker "
        "deltas forming chains and stars over occupied, virtual, general and "
        "spin-labelled indices, explicit or Einstein targets; evaluate_deltas' "
        "result compared in value on every target assignment (operators replaced "
        "by positional stand-in tensors), every vanished index must leave an index"
        " with at least as much space/spin information in its delta-connected "
        "component, and no target index may vanish. Sampled internal calls of real "
        "derivations too. non-trivial: the result differs from the input; distinct"
        " by (tensor shapes, delta link pattern, target mode).")
ASSUMPTIONS = ["precondition of the property checked first: every contracted index "
               "occurs on >= 1 non-delta object (other calls are counted as "
               "skipped_precondition, not judged)"]


def floors(tier):
    q = {'direct_calls': 150, 'deltas_evaluated_cases': 80,
         'points_compared': 2000, 'internal_checked': 20}
    if tier == 'thorough':
        q = {k: v * 5 for k, v in q.items()}
    return q


def gen_cases(tier, seed):
    from ..gen import ExprGen
    r = rng_for(seed, 'C09', tier)
    n = 1500 if tier == 'quick' else 12000
    maxd = 4 if tier == 'quick' else 6
    cases = []
    for k in range(n):
        spin = r.random() < 0.3
        g = ExprGen(r, spin=spin, general=r.choice([0.1, 0.3, 0.5]),
                    exponents=0.0, hyper=0.0, symbols=0.0)
        t = g.term(nobj=r.randint(1, 3))
        if t is None:
            continue
        # no repeated index on one object (object count == multiplicity count)
        if any(len(set(ir.obj_index_list(o))) < len(ir.obj_index_list(o))
               for o in t['objs']):
            continue
        # turn some rank-1 'z' tensors into operators
        for o in t['objs']:
            if o['t'] == 'non' and len(o['up']) == 1 and r.random() < 0.5 \
                    and ':' not in o['up'][0]:
                o['t'] = r.choice(['c', 'a'])
        idxs = list(ir.term_indices(t))
        used = set(idxs)
        nd = r.randint(1, maxd)
        deltas = []
        for _ in range(nd):
            a = r.choice(sorted(used))
            na, spa = ir.split_index(a)
            sp_a = ir.index_space(na)
            x = r.random()
            if x < 0.45:   # link to another existing index
                def compat(s):
                    n2, sp2 = ir.split_index(s)
                    spc = ir.index_space(n2)
                    return (spc == sp_a or 'general' in (spc, sp_a)) and \
                        (sp2 == spa or not sp2 or not spa)
                cand = [s for s in used if s != a and compat(s)]
                if not cand:
                    continue
                b = r.choice(sorted(cand))
            else:          # link to a new index (more / less / equal information)
                sp_b = r.choice([sp_a, sp_a, 'general']) if sp_a != 'general' \
                    else r.choice(['general', 'occ', 'virt'])
                spin_b = ''
                if spin:
                    spin_b = r.choice([spa, spa, '', 'a', 'b'])
                b = g.fresh(sp_b, used, spin_b)
            deltas.append({'t': 'delta', 'up': [a, b]})
            used.add(b)
        if not deltas:
            continue
        term = {'pref': t['pref'], 'objs': t['objs'] + deltas}
        mode = r.choice(['einstein', 'einstein', 'explicit'])
        cases.append({'id': f'C09-{tier[0]}{seed}-{k:05d}', 'mode': mode,
                      'term': term, 'spin': spin,
                      'extra_targets': r.random() < 0.5,
                      'dims': [4, 4] if spin else list(r.choice([(2, 2), (2, 3),
                                                                 (3, 2)])),
                      'mseed': r.randrange(1 << 30)})
    # non-flat input: a sum as a factor, deltas inside sums / powers of sums (the
    # documented behaviour: such deltas are not evaluated; the value is kept)
    for q in range(16 if tier == 'quick' else 120):
        sp = r.choice(['occ', 'virt', 'general'])
        nm = {'occ': 'ijkl', 'virt': 'abcd', 'general': 'pqrs'}[sp]
        cases.append({'id': f'C09-{tier[0]}{seed}-poly{q:03d}', 'mode': 'poly',
                      'shape': r.choice(['A', 'A', 'B', 'D', 'E']),
                      'names': list(nm), 'explicit': r.random() < 0.6,
                      'as_str': r.random() < 0.5,
                      'dims': list(r.choice([(2, 2), (2, 3), (3, 2)])),
                      'mseed': r.randrange(1 << 30)})
    for name in ['gs_energy_2', 'isr_block_pp_1', 's_root_pp', 'mvp_ip',
                 'diag_fock']:
        cases.append({'id': f'C09-{tier[0]}{seed}-pipe-{name}',
                      'mode': 'pipeline', 'pipeline': name, 'cost': 100,
                      'timeout': 1500, 'sample': 1,
                      'mseed': r.randrange(1 << 30)})
    return cases


class NoStandin(Exception):
    pass


def standin(expr):
    """replace the k-th operator of every term by a commutative stand-in tensor
    so that the tensor model can evaluate it"""
    from sympy import Add, Mul
    from adcgen.sympy_objects import NonSymmetricTensor
    expr = expr.expand()
    out = []
    for t in (expr.args if isinstance(expr, Add) else (expr,)):
        c, nc = t.args_cnc()
        repl = []
        for k, op in enumerate(nc):
            if op.__class__.__name__ not in ('CreateFermion',
                                             'AnnihilateFermion'):
                raise NoStandin(op)
            kind = 'C' if op.__class__.__name__ == 'CreateFermion' else 'A'
            repl.append(NonSymmetricTensor(f'op{kind}{k}', (op.args[0],)))
        out.append(Mul(*c) * Mul(*repl))
    return Add(*out)


def object_count_targets(term):
    """indices that occur on exactly one object of the product"""
    from .. import tm
    from sympy import Mul
    cnt = {}
    for f in (term.args if isinstance(term, Mul) else (term,)):
        for s in tm.count_indices(f):
            cnt[s] = cnt.get(s, 0) + 1
    return cnt


def check_call(term, targets, result, model, res_violation, label):
    """value + information monitors for one evaluate_deltas call on a product.
    targets: list of Index. returns 'ok' | 'pre' (precondition not met)"""
    from sympy import Mul
    from .. import tm
    facs = term.args if isinstance(term, Mul) else (term,)
    non_delta = set()
    deltas = []
    allidx = set()
    for f in facs:
        ii = set(tm.count_indices(f))
        allidx |= ii
        if f.__class__.__name__ == 'KroneckerDelta':
            deltas.append(f)
        else:
            non_delta |= ii
    contracted = [s for s in allidx if s not in targets]
    if any(s not in non_delta for s in contracted):
        return 'pre'
    ev = tm.Evaluator(model)
    v0 = ev.value(standin(term), targets)
    v1 = ev.value(standin(result), targets)
    if not np.array_equal(v0, v1):
        res_violation(f'{label}: evaluate_deltas changed the value: {term} -> '
                      f'{result} (targets {targets})')
        return 'ok'
    # information rule over the delta-connected components
    parent = {s: s for s in allidx}

    def find(s):
        while parent[s] != s:
            s = parent[s]
        return s
    for d in deltas:
        a, b = d.args
        parent[find(a)] = find(b)
    if result == 0:
        return 'ok'   # value check above: the term is identically zero
    remaining = set(tm.count_indices(result))
    for s in allidx - remaining:
        if s in targets:
            res_violation(f'{label}: target index {s} vanished: {term} -> '
                          f'{result}')
            return 'ok'
        comp = [q for q in allidx if find(q) == find(s) and q in remaining]
        good = [q for q in comp
                if (q.space == s.space or s.space == 'general')
                and (q.spin == s.spin or s.spin == '')]
        if not good:
            res_violation(f'{label}: index {s} ({s.space},{s.spin!r}) was '
                          f'replaced although no remaining index of its delta '
                          f'component {comp} carries as much information: '
                          f'{term} -> {result}')
            return 'ok'
    return 'ok'


def run_poly(case, res):
    from adcgen import evaluate_deltas
    from adcgen.sympy_objects import KroneckerDelta, NonSymmetricTensor
    from .. import tm
    i, j, k, l = [ir.mk_index(x) for x in case['names']]

    def T(name, *idx):
        return NonSymmetricTensor(name, idx)
    d = KroneckerDelta
    shape = case['shape']
    if shape == 'A':      # sum as a factor
        term = T('w', j) * (d(i, j) * T('y', j) + T('z', i, j))
    elif shape == 'B':    # power of a sum
        term = (d(i, j) + T('x', i, j)) ** 2 * T('y', j)
    elif shape == 'D':    # a flat delta next to the sum
        term = T('w', j) * (d(i, j) * T('y', j) + T('z', i, j)) * d(j, k) \
            * T('v', k)
    else:                 # two flat deltas and a sum holding a third
        term = T('w', j, k) * d(j, l) * d(k, l) * (d(i, l) * T('y', l)
                                                  + T('z', i, l))
    targets = [i]
    kw = {}
    if case['explicit']:
        kw['target_idx'] = 'i' if case['as_str'] and len(i.name) == 1 else \
            (i.name if case['as_str'] else (i,))
    n_o, n_v = case['dims']
    model = tm.Model(n_o, n_v, seed=case['mseed'])
    ev = tm.Evaluator(model)
    out = lib_call(evaluate_deltas, term, **kw)
    res.count('direct_calls')
    res.count('nonflat_inputs')
    v0, v1 = ev.value(term, targets), ev.value(out, targets)
    res.count('points_compared', int(v0.size))
    res.nontrivial = True
    res.fingerprint = fp('poly', shape, case['names'][0], case['explicit'],
                         case['as_str'])
    res.observed = {'input': str(term)[:200], 'output': str(out)[:200]}
    if not np.array_equal(v0, v1):
        res.violation(f'evaluate_deltas({term}, {kw}) = {out} changes the value '
                      f'(target {i})')
        return
    if i not in tm.count_indices(out.expand().args[0] if out.expand().is_Add
                                 else out):
        res.violation(f'evaluate_deltas({term}, {kw}) = {out} lost the target '
                      f'index {i}')


def run_case(case, res):
    if case['mode'] == 'pipeline':
        return run_pipeline(case, res)
    if case['mode'] == 'poly':
        return run_poly(case, res)
    from adcgen import evaluate_deltas
    from sympy import S
    from .. import tm
    term = ir.mk_term(case['term'])
    if term is S.Zero or term.is_number:
        res.skip('term vanished on construction')
        return
    cnt = object_count_targets(term)
    targets = sorted([s for s, n in cnt.items() if n == 1], key=tm.idx_key)
    kw = {}
    if case['mode'] == 'explicit':
        if case['extra_targets']:
            r = rng_for(case['mseed'], 'xt')
            others = sorted([s for s in cnt if s not in targets], key=tm.idx_key)
            if others:
                targets = sorted(targets + r.sample(others, 1), key=tm.idx_key)
        if any(s.spin for s in targets):
            kw['target_idx'] = list(targets)
        else:
            kw['target_idx'] = ''.join(s.name for s in targets)
        if not targets:
            kw = {}
    n_o, n_v = case['dims']
    model = tm.Model(n_o, n_v, seed=case['mseed'], spin=case['spin'])
    out = lib_call(evaluate_deltas, term, **kw)
    res.count('direct_calls')
    try:
        st = check_call(term, targets, out, model, res.violation, 'direct')
    except NoStandin:
        res.skip('power of an operator')
        return
    if st == 'pre':
        res.count('skipped_precondition')
        res.status = 'skipped' if res.status == 'ok' else res.status
        return
    size = 1
    for s in targets:
        size *= len(model.domain(s))
    res.count('points_compared', size)
    res.nontrivial = out != term
    if out != term:
        res.count('deltas_evaluated_cases')
    res.fingerprint = fp(sorted((o['t'], len(ir.obj_index_list(o)))
                                for o in case['term']['objs']),
                         [[ir.index_space(ir.split_index(s)[0]),
                           ir.split_index(s)[1]]
                          for o in case['term']['objs'] if o['t'] == 'delta'
                          for s in o['up']], case['mode'])
    res.observed = {'input': str(term), 'output': str(out),
                    'targets': [str(s) for s in targets]}


def run_pipeline(case, res):
    import sys
    import adcgen  # noqa: F401
    from sympy import Mul
    from .. import tm, monitor
    afunc = sys.modules['adcgen.func']
    model = tm.Model(2, 2, seed=case['mseed'])
    state = {'n': 0, 'checked': 0, 'pre': 0, 'changed': 0}
    violations = []
    every = case['sample']

    def deltas_keep_value(expr, target_idx, result):
        if not isinstance(expr, Mul) or monitor.in_monitor():
            return True
        if not any(f.__class__.__name__ == 'KroneckerDelta' for f in expr.args):
            return True
        state['n'] += 1
        if state['n'] % every:
            return True
        with monitor.guard():
            if target_idx is None:
                cnt = object_count_targets(expr)
                targets = sorted([s for s, n in cnt.items() if n == 1],
                                 key=tm.idx_key)
            else:
                from adcgen import get_symbols
                targets = list(get_symbols(target_idx))
            if any(tm.count_indices(f).get(s, 0) > 1 for f in expr.args
                   for s in tm.count_indices(f)):
                state['pre'] += 1
                return True
            try:
                st = check_call(expr, targets, result, model,
                                violations.append, 'internal')
            except (tm.ModelUnusable, NoStandin):
                st = 'pre'
            if st == 'pre':
                state['pre'] += 1
            else:
                state['checked'] += 1
                state['changed'] += int(result != expr)
        return True

    undo = monitor.rebind(afunc, 'evaluate_deltas',
                          monitor.ensure(deltas_keep_value)(
                              afunc.evaluate_deltas))
    try:
        lib_call(_PIPE[case['pipeline']])
    finally:
        undo()
    res.count('internal_calls', state['n'])
    res.count('internal_checked', state['checked'])
    res.count('internal_skipped_precondition', state['pre'])
    res.nontrivial = state['changed'] > 0
    res.fingerprint = fp('pipeline', case['pipeline'])
    res.observed = dict(state)
    if monitor.ERRORS:
        res.status = 'harness_error'
        res.detail = monitor.ERRORS[0]
    if violations:
        res.violation(violations[0])


def _p1():
    from adcgen import GroundState, Operators
    GroundState(Operators('mp')).energy(2)


def _p2():
    from adcgen import (GroundState, Operators, IntermediateStates,
                        SecularMatrix)
    isr = IntermediateStates(GroundState(Operators('mp')), 'pp')
    SecularMatrix(isr).isr_matrix_block(1, 'ph,ph', 'ia,jb')


def _p3():
    from adcgen import GroundState, Operators, IntermediateStates
    isr = IntermediateStates(GroundState(Operators('mp')), 'pp')
    isr.s_root(2, 'ph,ph', 'ia,jb')
    isr.intermediate_state(2, 'ph', 'ket', 'ia')


def _p4():
    from adcgen import (GroundState, Operators, IntermediateStates,
                        SecularMatrix)
    isr = IntermediateStates(GroundState(Operators('mp')), 'ip')
    sm = SecularMatrix(isr)
    sm.mvp_block_order(1, 'h', 'h,phh', 'i')
    sm.mvp_block_order(2, 'h', 'h,h', 'i')


def _p5():
    from adcgen import GroundState, Operators, Expr
    e = Expr(GroundState(Operators('mp')).energy(2))
    e.diagonalize_fock()
    from adcgen import (IntermediateStates, SecularMatrix)
    isr = IntermediateStates(GroundState(Operators('mp')), 'pp')
    m = Expr(SecularMatrix(isr).isr_matrix_block(1, 'ph,ph', 'ia,jb'))
    m.diagonalize_fock()


_PIPE = {'gs_energy_2': _p1, 'isr_block_pp_1': _p2, 's_root_pp': _p3,
         'mvp_ip': _p4, 'diag_fock': _p5}
