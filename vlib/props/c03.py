"""C03 - secular matrix equals <I|H-E0|J> over explicitly built intermediate states."""
import itertools

import numpy as np

from ..common import fp, lib_call, rng_for

LEVEL = 'exploration'
BATCH = 1
CASE_TIMEOUT = 1800
RULE = ("secular-matrix requests (variant pp/ip/ea/dip/dea, block, order, "
        "subtract_gs, kind isr block / precursor block / matrix-vector product / "
        "block-order table) x model spaces, compared on every bra/ket orbital "
        "assignment with the same-order coefficient of <I|H-E0|J> between "
        "intermediate states built explicitly in determinant space. non-trivial: "
        ">= 1 non-zero reference element; distinct by (variant, kind, block, "
        "order, subtract_gs, model dims).")
ASSUMPTIONS = [
    "MP partitioning, canonical real model Hamiltonian",
    "documented MVP normalisation r_I = g_I^-1/2 g_J^1/2 sum_{J restricted} M_IJ Y_J"
    " with g = n_o! n_v!",
]

OCC = ['i', 'j', 'k', 'l', 'm', 'n', 'o', 'i1', 'j1', 'k2']
VIRT = ['a', 'b', 'c', 'd', 'e', 'f', 'g', 'a1', 'b1', 'c2']


def floors(tier):
    return {'points_compared': 2000, 'nonzero_reference_points': 200,
            'isr_blocks': 15, 'mvp_blocks': 4, 'table_checks': 4,
            'mvp_sums': 5}


def _dims_for(variant, spaces, r, tier):
    need_o = max(s.count('h') for s in spaces)
    need_v = max(s.count('p') for s in spaces)
    opts = [(2, 2), (2, 3), (3, 2), (3, 3)]
    if tier == 'thorough':
        opts += [(3, 4), (4, 3)]
    # at least one more orbital than needed so that the states are not unique
    good = [d for d in opts if d[0] >= max(need_o, 2) and d[1] >= max(need_v, 2)]
    npts = lambda d: d[0] ** sum(s.count('h') for s in spaces) * \
        d[1] ** sum(s.count('p') for s in spaces)  # noqa: E731
    good = [d for d in good if npts(d) <= (7000 if tier == 'quick' else 70000)]
    return list(r.choice(good))


def gen_cases(tier, seed):
    from ..isr import spaces_upto
    r = rng_for(seed, 'C03', tier)
    cases = []

    def add(variant, kind, block, order, subtract_gs=True, cost=10, **kw):
        spaces = block.split(',') if block else []
        c = dict(variant=variant, kind=kind, block=block, order=order,
                 subtract_gs=subtract_gs, cost=cost,
                 dims=_dims_for(variant, spaces, r, tier) if spaces else [2, 2],
                 mseed=r.randrange(1 << 30), hseed=r.randrange(1 << 30))
        c.update(kw)
        c['id'] = (f"C03-{tier[0]}{seed}-{len(cases):03d}-{variant}-{kind}"
                   f"{kw.get('adc_order', '')}-"
                   f"{block.replace(',', '_')}-{order}"
                   f"{'' if subtract_gs else '-nogs'}"
                   f"{'-singles' if kw.get('singles') else ''}"
                   f"{'-hist' if kw.get('pre_flag') else ''}")
        cases.append(c)
    for variant in ('pp', 'ip', 'ea', 'dip', 'dea'):
        s1, s2 = spaces_upto(variant, 2)
        big = variant in ('pp', 'dip', 'dea')
        for order in range(0, 3):
            add(variant, 'isr', f'{s1},{s1}', order, cost=5 + 15 * order ** 2)
        for order in range(0, 2 if big else 3):
            add(variant, 'isr', f'{s1},{s2}', order, cost=10 + 30 * order)
            add(variant, 'isr', f'{s2},{s1}', order, cost=10 + 30 * order)
        for order in range(0, 2):
            add(variant, 'isr', f'{s2},{s2}', order,
                cost=10 + (100 if big else 40) * order)
        add(variant, 'isr', f'{s1},{s1}', 1, subtract_gs=False, cost=10)
        add(variant, 'precursor', f'{s1},{s1}', 2, cost=30)
        add(variant, 'table', '', 0, cost=1)
    # third excitation class against the first (orthogonalisation against every
    # lower class)
    for variant in ('ip', 'ea'):
        s1, s2, s3 = spaces_upto(variant, 3)
        add(variant, 'isr', f'{s1},{s3}', 1, cost=150, nclasses=3,
            dims=[3, 2] if variant == 'ip' else [2, 3])
        add(variant, 'isr', f'{s3},{s1}', 1, cost=150, nclasses=3,
            dims=[3, 2] if variant == 'ip' else [2, 3])
    # both subtract_gs values on one instance, in both orders
    for variant, o in (('pp', 2), ('ip', 2), ('ea', 1), ('ip', 0)):
        s1, s2 = spaces_upto(variant, 2)
        add(variant, 'isr', f'{s1},{s1}', o, cost=20 + 30 * o, pre_flag=True)
        add(variant, 'isr', f'{s1},{s1}', o, subtract_gs=False,
            cost=20 + 30 * o, pre_flag=True)
    add('ip', 'isr', 'phh,phh', 1, subtract_gs=False, cost=60, pre_flag=True)
    # ground state with free first-order singles (first_order_singles=True)
    for variant in ('pp', 'ip'):
        s1, s2 = spaces_upto(variant, 2)
        add(variant, 'isr', f'{s1},{s1}', 1, cost=15, singles=True)
        add(variant, 'isr', f'{s1},{s1}', 2, cost=80, singles=True)
        add(variant, 'isr', f'{s1},{s2}', 1, cost=60, singles=True)
        add(variant, 'isr', f'{s1},{s1}', 1, subtract_gs=False, cost=15,
            singles=True)
    # matrix vector products of ADC(2)
    for variant in ('pp', 'ip', 'ea'):
        s1, s2 = spaces_upto(variant, 2)
        for sp, blk, order in [(s1, f'{s1},{s1}', 2), (s1, f'{s1},{s2}', 1),
                               (s2, f'{s2},{s1}', 1), (s2, f'{s2},{s2}', 0)]:
            add(variant, 'mvp', blk, order, cost=20 + 20 * order)
    for variant in ('pp', 'ip', 'ea'):
        s1, s2 = spaces_upto(variant, 2)
        for adc, sp, o, sgs in [(1, s1, -1, True), (2, s1, 1, False),
                                (2, s2, -1, True), (2, s1, 2, False),
                                (2, s2, 0, False), (1, s1, 1, False)]:
            add(variant, 'mvpsum', f'{sp},{sp}', o, subtract_gs=sgs,
                adc_order=adc, cost=60 + 60 * adc)
    if tier == 'thorough':
        for variant in ('pp', 'ip', 'ea', 'dip', 'dea'):
            s1, s2 = spaces_upto(variant, 2)
            add(variant, 'isr', f'{s1},{s1}', 3, cost=600, timeout=4000)
            add(variant, 'isr', f'{s1},{s2}', 2, cost=300, timeout=4000)
            add(variant, 'isr', f'{s2},{s1}', 2, cost=300, timeout=4000)
            add(variant, 'isr', f'{s1},{s1}', 2, subtract_gs=False, cost=60)
            add(variant, 'isr', f'{s1},{s2}', 1, subtract_gs=False, cost=60)
            add(variant, 'precursor', f'{s1},{s2}', 1, cost=60)
            add(variant, 'precursor', f'{s2},{s2}', 1, cost=200)
            add(variant, 'mvp', f'{s1},{s1}', 3, cost=600, timeout=4000)
            add(variant, 'mvp', f'{s1},{s2}', 2, cost=300, timeout=4000)
            add(variant, 'mvp', f'{s2},{s1}', 2, cost=300, timeout=4000)
            add(variant, 'mvp', f'{s2},{s2}', 1, cost=300, timeout=4000)
    return cases


def _names(r, space, used):
    no_, nv_ = space.count('h'), space.count('p')
    o = r.sample([s for s in OCC if s not in used], no_)
    v = r.sample([s for s in VIRT if s not in used], nv_)
    used.update(o + v)
    return o, v


def build_reference(case, order, nclasses=2, p=None):
    from .. import tm, gsref, isr
    n_o, n_v = case['dims']
    mseed = case['mseed']
    for _ in range(5):
        try:
            ref = gsref.GSRef('mp', bool(case.get('singles')), n_o, n_v, mseed,
                              max(order, 1),
                              p=p or tm.PRIMES[0])
            break
        except (ZeroDivisionError, tm.ModelUnusable):
            mseed += 1
    else:
        return None, None
    I = isr.ISR(ref.rspt, case['variant'], order, nclasses)
    return ref, I


def state_tables(I, space):
    """restricted labels of a class"""
    return list(I.states[space].keys())


def canon(vs, os_):
    """(sign, label) of an arbitrary orbital tuple, None if a repeated orbital"""
    from ..fock import perm_parity
    if len(set(vs)) < len(vs) or len(set(os_)) < len(os_):
        return None
    return perm_parity(vs) * perm_parity(os_), (tuple(sorted(vs)),
                                                tuple(sorted(os_)))


def matrix_table(I, table_bra, table_ket, spI, spJ, subtract_gs):
    """{(labI, labJ): series} over restricted labels"""
    out = {}
    hk = {lj: I.apply_Hlambda(kj) for lj, kj in table_ket[spJ].items()}
    S = I.S
    for li, bi in table_bra[spI].items():
        for lj, kj in table_ket[spJ].items():
            m = S.dot(bi, hk[lj])
            if subtract_gs:
                ov = S.dot(bi, kj)
                sub = S.smul(I.E, ov)
                m = [(a - b) % I.p for a, b in zip(m, sub)]
            out[(li, lj)] = m
    return out


def expected_block(I, ref, table, spI, spJ, order, doms, nIo, nIv, nJo, nJv):
    p = I.p
    shape = tuple(len(d) for d in doms)
    exp = np.zeros(shape, dtype=np.int64)
    for pos in itertools.product(*[range(n) for n in shape]):
        orbs = [int(d[k]) for d, k in zip(doms, pos)]
        Io, Iv = tuple(orbs[:nIo]), tuple(orbs[nIo:nIo + nIv])
        Jo = tuple(orbs[nIo + nIv:nIo + nIv + nJo])
        Jv = tuple(orbs[nIo + nIv + nJo:])
        ci, cj = canon(Iv, Io), canon(Jv, Jo)
        if ci is None or cj is None:
            continue
        exp[pos] = ci[0] * cj[0] * table[(ci[1], cj[1])][order] % p
    return exp


def run_case(case, res):
    from adcgen import (GroundState, Operators, IntermediateStates,
                        SecularMatrix, get_symbols)
    from .. import tm, isr as isrmod
    variant, kind, order = case['variant'], case['kind'], case['order']
    r = rng_for(case['hseed'], 'names')
    gs = GroundState(Operators('mp'), bool(case.get('singles')))
    lib_isr = IntermediateStates(gs, variant)
    sm = SecularMatrix(lib_isr)
    res.fingerprint = fp(variant, kind, case['block'], order,
                         case['subtract_gs'], case['dims'],
                         bool(case.get('singles')))
    if kind == 'table':
        return run_table(case, res, sm, variant)
    spI, spJ = case['block'].split(',')
    ref, I = build_reference(case, max(order, case.get('adc_order', 0)),
                             nclasses=case.get('nclasses', 2))
    if ref is None:
        res.skip('no usable model')
        return
    p = ref.p
    used = set()
    Io, Iv = _names(r, spI, used)
    Jo, Jv = _names(r, spJ, used)
    sI, sJ = ''.join(Io + Iv), ''.join(Jo + Jv)
    if kind in ('isr', 'precursor'):
        fn = sm.isr_matrix_block if kind == 'isr' else sm.precursor_matrix_block
        if case.get('pre_flag'):
            # an earlier request with the other subtract_gs value on the same
            # SecularMatrix instance (cached members must not leak)
            lib_call(fn, order, f'{spI},{spJ}', f'{sI},{sJ}',
                     not case['subtract_gs'])
            res.count('history_pairs')
        expr = lib_call(fn, order, f'{spI},{spJ}', f'{sI},{sJ}',
                        case['subtract_gs'])
        tgt = get_symbols(Io + Iv + Jo + Jv)
        val = ref.ev.value(expr, tgt)
        doms = [ref.model.domain(s) for s in tgt]
        tabs = I.states if kind == 'isr' else I.precursor
        table = matrix_table(I, tabs, tabs, spI, spJ, case['subtract_gs'])
        exp = expected_block(I, ref, table, spI, spJ, order, doms,
                             len(Io), len(Iv), len(Jo), len(Jv))
        # the explicit matrix is symmetric (real model): the library block is
        # thereby compared with the transpose of its bra/ket-swapped partner
        nz = int(np.count_nonzero(exp))
        res.count('isr_blocks' if kind == 'isr' else 'precursor_blocks')
        res.count('points_compared', int(exp.size))
        res.count('nonzero_reference_points', nz)
        res.nontrivial = nz > 0
        res.observed = {'indices': f'{sI},{sJ}', 'terms': _nterms(expr),
                        'points': int(exp.size), 'nonzero_reference': nz}
        if not np.array_equal(val % p, exp):
            bad = np.argwhere(val % p != exp)
            res.violation(
                f'{variant} {kind}_matrix_block({order}, {spI},{spJ}, {sI},{sJ}, '
                f'subtract_gs={case["subtract_gs"]}) differs from the explicit '
                f'ISR matrix element at {len(bad)} of {exp.size} points; first '
                f'{bad[0].tolist()}: {int(val[tuple(bad[0])])} vs '
                f'{int(exp[tuple(bad[0])])} (model {case["dims"]})')
        return
    if kind == 'mvp':
        expr = lib_call(sm.mvp_block_order, order, spI, f'{spI},{spJ}', sI,
                        case['subtract_gs'])
        tgt = get_symbols(Io + Iv)
        val = ref.ev.value(expr, tgt)
        doms = [ref.model.domain(s) for s in tgt]
        exp = mvp_reference(I, ref, spI, spJ, order, case['subtract_gs'], doms,
                            len(Io))
        nz = int(np.count_nonzero(exp))
        res.count('mvp_blocks')
        res.count('points_compared', int(exp.size))
        res.count('nonzero_reference_points', nz)
        res.nontrivial = nz > 0
        res.observed = {'indices': sI, 'terms': _nterms(expr),
                        'points': int(exp.size), 'nonzero_reference': nz}
        if not np.array_equal(val % p, exp):
            bad = np.argwhere(val % p != exp)
            res.violation(
                f'{variant} mvp_block_order({order}, {spI}, {spI},{spJ}, {sI}) '
                f'differs from g_I^-1/2 g_J^1/2 sum_J M_IJ Y_J at {len(bad)} of '
                f'{exp.size} points; first {bad[0].tolist()} '
                f'(model {case["dims"]})')
        return
    if kind == 'mvpsum':
        # mvp(adc_order, space, indices, order, subtract_gs) = sum over the blocks
        # (space, J) of ADC(n) and the orders <= n - (mu-1) - (nu-1) (or the single
        # requested order) of the block contributions
        n = case['adc_order']
        o_req = case['order'] if case['order'] >= 0 else None
        expr = lib_call(sm.mvp, n, spI, sI, o_req, case['subtract_gs'])
        tgt = get_symbols(Io + Iv)
        val = ref.ev.value(expr, tgt)
        doms = [ref.model.domain(s) for s in tgt]
        spaces = isrmod.spaces_upto(variant, n // 2 + 1)
        mu = spaces.index(spI)
        exp = np.zeros(val.shape, dtype=np.int64)
        for nu, spK in enumerate(spaces):
            for o in range(0, n - mu - nu + 1):
                if o_req is not None and o != o_req:
                    continue
                exp = (exp + mvp_reference(I, ref, spI, spK, o,
                                           case['subtract_gs'], doms,
                                           len(Io))) % p
        nz = int(np.count_nonzero(exp))
        res.count('mvp_sums')
        res.count('points_compared', int(exp.size))
        res.count('nonzero_reference_points', nz)
        res.nontrivial = nz > 0
        res.observed = {'indices': sI, 'terms': _nterms(expr),
                        'points': int(exp.size), 'nonzero_reference': nz}
        if not np.array_equal(val % p, exp):
            bad = np.argwhere(val % p != exp)
            res.violation(
                f'{variant} mvp({n}, {spI}, {sI}, order={o_req}, subtract_gs='
                f'{case["subtract_gs"]}) differs from the sum of the explicit '
                f'block contributions at {len(bad)} of {exp.size} points '
                f'(model {case["dims"]})')
        return
    raise ValueError(kind)


def mvp_reference(I, ref, spI, spJ, order, subtract_gs, doms, nIo):
    """[lambda^order] g_I^-1/2 g_J^1/2 sum_{J restricted} M_IJ Y_J over the
    orbital domains doms of the result indices (occ first, then virt)"""
    from .. import isr as isrmod
    p = ref.p
    table = matrix_table(I, I.states, I.states, spI, spJ, subtract_gs)
    F = ref.model.F
    fac = F.sqrt_int(isrmod.g_of(spJ)) * F.inv(
        F.sqrt_int(isrmod.g_of(spI))) % p
    yval = {}
    for (Jv_, Jo_) in I.states[spJ]:
        arr = ref.model.tensor_block(
            'anti', 'Y', [np.array([a]) for a in Jv_],
            [np.array([i]) for i in Jo_])
        yval[(Jv_, Jo_)] = int(arr.reshape(-1)[0])
    shape = tuple(len(d) for d in doms)
    exp = np.zeros(shape, dtype=np.int64)
    for pos in itertools.product(*[range(n) for n in shape]):
        orbs = [int(d[k]) for d, k in zip(doms, pos)]
        ci = canon(tuple(orbs[nIo:]), tuple(orbs[:nIo]))
        if ci is None:
            continue
        tot = 0
        for lj, y in yval.items():
            tot += table[(ci[1], lj)][order] * y
        exp[pos] = ci[0] * tot * fac % p
    return exp


def run_table(case, res, sm, variant):
    """block_order / max_ptorder_spaces against the definition: ADC(n) contains
    the classes mu <= n//2 + 1, class mu through order n - (mu - 1), block (mu, nu)
    through order n - (mu - 1) - (nu - 1)."""
    from ..isr import MIN_SPACE
    for n in range(0, 7):
        spaces = [MIN_SPACE[variant]]
        for _ in range(n // 2):
            spaces.append('p' + spaces[-1] + 'h')
        exp_sp = {s: n - k for k, s in enumerate(spaces)}
        exp_bl = {(a, b): n - ka - kb for ka, a in enumerate(spaces)
                  for kb, b in enumerate(spaces)}
        got_sp = lib_call(sm.max_ptorder_spaces, n)
        got_bl = lib_call(sm.block_order, n)
        res.count('table_checks')
        if dict(got_sp) != exp_sp:
            res.violation(f'{variant} max_ptorder_spaces({n}) = {got_sp}, '
                          f'definition gives {exp_sp}')
        if dict(got_bl) != exp_bl:
            res.violation(f'{variant} block_order({n}) = {got_bl}, definition '
                          f'gives {exp_bl}')
    res.nontrivial = True
    res.count('points_compared', 14)
    res.observed = {'adc_orders': '0..6'}


def _nterms(expr):
    from sympy import Add, sympify
    e = sympify(expr).expand()
    return len(e.args) if isinstance(e, Add) else int(e != 0)
