"""C05 - ISR properties and transition moments equal explicit matrix elements."""
import itertools

import numpy as np

from ..common import fp, lib_call, rng_for

LEVEL = 'exploration'
BATCH = 1
CASE_TIMEOUT = 1800
RULE = ("property requests (variant, block or space, operator rank, order, "
        "subtract_gs, kind expectation-value block / transition moment / ADC(n) "
        "sums) compared with the same-order coefficient of the explicit matrix "
        "element <I|D-<D>|J> resp. <I|D|Psi0> between explicitly built intermediate"
        " states, contracted with random amplitude vectors X, Y and a random "
        "operator matrix d using the documented normalisation. non-trivial: "
        "reference value non-zero; distinct by (variant, kind, block, rank, order, "
        "subtract_gs, model dims).")
ASSUMPTIONS = [
    "MP partitioning, canonical real model Hamiltonian",
    "documented normalisation: sum_{I,J restricted} sqrt(g_I g_J) X_I Y_J <I|..|J>,"
    " g = n_o! n_v!",
]


def floors(tier):
    return {'expec_blocks': 12, 'trans_moments': 8, 'sums': 2,
            'history_pairs': 3,
            'nonzero_reference_points': 15}


def gen_cases(tier, seed):
    from ..isr import spaces_upto
    r = rng_for(seed, 'C05', tier)
    cases = []

    def add(variant, kind, block, order, cost=10, **kw):
        c = dict(variant=variant, kind=kind, block=block, order=order, cost=cost,
                 n_particles=kw.pop('n_particles', 1),
                 subtract_gs=kw.pop('subtract_gs', True),
                 dims=kw.pop('dims', list(r.choice([(2, 2), (3, 3), (2, 3),
                                                    (3, 2)]))),
                 mseed=r.randrange(1 << 30))
        c.update(kw)
        c['id'] = (f"C05-{tier[0]}{seed}-{len(cases):03d}-{variant}-{kind}"
                   f"{'' if kw.get('first_gs', None) is None else int(kw['first_gs'])}-"
                   f"{block.replace(',', '_')}-{order}-k{c['n_particles']}"
                   f"{'' if c['subtract_gs'] else '-nogs'}"
                   f"{'-singles' if kw.get('singles') else ''}")
        cases.append(c)
    for variant in ('pp', 'ip', 'ea'):
        s1, s2 = spaces_upto(variant, 2)
        big = variant == 'pp'
        for order in range(0, 3):
            add(variant, 'expec', f'{s1},{s1}', order, cost=10 + 40 * order)
        for order in range(0, 2):
            add(variant, 'expec', f'{s1},{s2}', order, cost=20 + 60 * order)
            add(variant, 'expec', f'{s2},{s1}', order, cost=20 + 60 * order)
        add(variant, 'expec', f'{s2},{s2}', 0, cost=30)
        if not big:
            add(variant, 'expec', f'{s2},{s2}', 1, cost=100)
        add(variant, 'expec', f'{s1},{s1}', 1, subtract_gs=False, cost=20)
        for order in range(0, 3):
            add(variant, 'tm', s1, order, cost=10 + 20 * order)
        for order in range(0, 2):
            add(variant, 'tm', s2, order, cost=20 + 40 * order)
        add(variant, 'sum_ev', '', 1, cost=60)
        add(variant, 'sum_tm', '', 2, cost=100)
        if variant != 'ea':
            # ADC(n) sum for a two-particle operator (the rank is forwarded to
            # every block)
            add(variant, 'sum_ev', '', 1, n_particles=2, cost=120, dims=[2, 2])
    # ground state with free first-order singles (first_order_singles=True)
    for variant in ('pp', 'ip'):
        s1, s2 = spaces_upto(variant, 2)
        for order in (0, 1, 2):
            add(variant, 'expec', f'{s1},{s1}', order, cost=20 + 60 * order,
                singles=True)
        add(variant, 'expec', f'{s1},{s1}', 1, subtract_gs=False, cost=30,
            singles=True)
        add(variant, 'expec', f'{s1},{s2}', 1, cost=90, singles=True)
        for order in (1, 2):
            add(variant, 'tm', s1, order, cost=20 + 30 * order, singles=True)
    # third order (the third-order norm factor enters)
    add('ip', 'expec', 'h,h', 3, cost=60, dims=[2, 2])
    add('ip', 'tm', 'h', 3, cost=30, dims=[2, 2])
    add('ea', 'tm', 'p', 3, cost=30, dims=[2, 2])
    for variant in ('dip', 'dea'):
        s1, s2 = spaces_upto(variant, 2)
        add(variant, 'expec', f'{s1},{s1}', 1, cost=40)
        add(variant, 'tm', s1, 1, cost=40)
    # mixed left/right variants, default operator string of the chosen side
    add('pp', 'tm_mixed', 'h', 1, cost=60)
    add('pp', 'tm_mixed', 'h', 0, cost=30)
    add('pp', 'tm_mixed', 'phh', 1, cost=100)
    # call histories on ONE Properties instance: both subtract_gs values, in
    # both orders (cached members must not leak between them)
    for variant, blk, o in [('pp', 'ph,ph', 2), ('ip', 'h,h', 2),
                            ('ea', 'p,pph', 1), ('pp', 'ph,ph', 0)]:
        add(variant, 'expec_hist', blk, o, first_gs=True, cost=80)
        add(variant, 'expec_hist', blk, o, first_gs=False, cost=80)
    if tier == 'thorough':
        for variant in ('pp', 'ip', 'ea', 'dip', 'dea'):
            s1, s2 = spaces_upto(variant, 2)
            add(variant, 'expec', f'{s1},{s1}', 2, n_particles=2, cost=400,
                dims=[2, 2], timeout=4000)
            add(variant, 'expec', f'{s1},{s1}', 2, subtract_gs=False, cost=100)
            add(variant, 'expec', f'{s1},{s2}', 1, subtract_gs=False, cost=100)
            add(variant, 'tm', s1, 3, cost=400, timeout=4000)
            add(variant, 'tm', s2, 2, cost=400, timeout=4000)
            add(variant, 'sum_ev', '', 2, cost=600, timeout=4000)
            if variant in ('dip', 'dea'):
                add(variant, 'expec', f'{s1},{s2}', 1, cost=200)
                add(variant, 'expec', f'{s1},{s1}', 2, cost=200)
                add(variant, 'tm', s1, 2, cost=200)
        add('pp', 'expec', 'ph,ph', 3, cost=900, timeout=5000)
        add('ip', 'expec', 'h,h', 3, cost=600, timeout=5000)
        add('pp', 'tm_mixed', 'phh', 2, cost=300)
        add('pp', 'tm_nondefault', 'ph', 1, cost=100)
    return cases


def amp_val(model, name, vs, os_):
    arr = model.tensor_block('anti', name, [np.array([a]) for a in vs],
                             [np.array([i]) for i in os_])
    return int(arr.reshape(-1)[0])


def explicit_expec(I, ref, dten, kp, spI, spJ, order, subtract_gs, Il=None):
    """[lambda^order] sum_{I,J restricted} sqrt(g_I g_J) X_I Y_J <I|D - <D>|J>"""
    from ..isr import g_of
    S, p = I.S, I.p
    Il = Il or I
    Dgs = None
    if subtract_gs:
        Dgs = S.dot(I.psi0, I.apply_operator(I.psi0, dten, kp, kp))
    tot = 0
    dket = {lj: I.apply_operator(kj, dten, kp, kp)
            for lj, kj in I.states[spJ].items()}
    for (Iv, Io), stI in Il.states[spI].items():
        x = amp_val(ref.model, 'X', Iv, Io)
        for (Jv, Jo), stJ in I.states[spJ].items():
            y = amp_val(ref.model, 'Y', Jv, Jo)
            me = S.dot(stI, dket[(Jv, Jo)])[order]
            if subtract_gs:
                me -= S.smul(Dgs, S.dot(stI, stJ))[order]
            tot = (tot + x * y * me) % p
    F = ref.model.F
    return tot * F.sqrt_int(g_of(spI) * g_of(spJ)) % p


def explicit_tm(I, ref, dten, n_c, n_a, space, order, subtract_gs):
    """[lambda^order] sqrt(g_I) sum_{I restricted} X_I <I|D - <D>|Psi0>"""
    from ..isr import g_of
    S, p = I.S, I.p
    dpsi = I.apply_operator(I.psi0, dten, n_c, n_a)
    if subtract_gs and n_c == n_a:
        Dgs = S.dot(I.psi0, dpsi)
        dpsi = S.vadd(dpsi, S.vec_times_scalar(I.psi0, Dgs), p - 1)
    tot = 0
    for (Iv, Io), stI in I.states[space].items():
        x = amp_val(ref.model, 'X', Iv, Io)
        tot = (tot + x * S.dot(stI, dpsi)[order]) % p
    return tot * ref.model.F.sqrt_int(g_of(space)) % p


def run_case(case, res):
    from adcgen import (GroundState, Operators, IntermediateStates, Properties)
    from .. import tm, gsref
    from ..isr import spaces_upto, MIN_SPACE, ISR
    from .c03 import build_reference, _nterms
    variant, kind, order = case['variant'], case['kind'], case['order']
    kp = case['n_particles']
    sgs = case['subtract_gs']
    gs = GroundState(Operators('mp'), bool(case.get('singles')))
    lib_isr = IntermediateStates(gs, variant)
    prop = Properties(lib_isr)
    res.fingerprint = fp(variant, kind, case['block'], kp, order, sgs, bool(case.get('singles')),
                         case['dims'])
    ref, I = build_reference(case, max(order, 1))
    if ref is None:
        res.skip('no usable model')
        return
    p = ref.p

    def model_with(d_ranks):
        ex = {}
        for (nc, na) in d_ranks:
            ex[('d', nc, na)] = _rand_d(ref, nc, na)
        m = ref.with_explicit(ex)
        return m, ex

    def finish(name, val, exp, terms, counter):
        res.count(counter)
        res.count('points_compared')
        res.count('nonzero_reference_points', int(exp != 0))
        res.nontrivial = exp != 0
        res.observed = {'request': name, 'terms': terms, 'library': val,
                        'explicit': exp, 'model': case['dims']}
        if val != exp:
            res.violation(f'{variant} {name} = {val} differs from the explicit '
                          f'matrix element {exp} (mod {p}) on model '
                          f'{case["dims"]}')

    if kind == 'expec':
        spI, spJ = case['block'].split(',')
        expr = lib_call(prop.expec_block_contribution, order, f'{spI},{spJ}',
                        kp, sgs)
        m, ex = model_with([(kp, kp)])
        val = int(tm.Evaluator(m).value(expr, []))
        exp = explicit_expec(I, ref, ex[('d', kp, kp)], kp, spI, spJ, order, sgs)
        finish(f'expec_block_contribution({order}, {spI},{spJ}, {kp}, '
               f'subtract_gs={sgs})', val, exp, _nterms(expr), 'expec_blocks')
        return
    if kind == 'expec_hist':
        spI, spJ = case['block'].split(',')
        m, ex = model_with([(kp, kp)])
        evm = tm.Evaluator(m)
        flags = [True, False] if case['first_gs'] else [False, True]
        for n_call, flag in enumerate(flags):
            expr = lib_call(prop.expec_block_contribution, order,
                            f'{spI},{spJ}', kp, flag)
            val = int(evm.value(expr, []))
            exp = explicit_expec(I, ref, ex[('d', kp, kp)], kp, spI, spJ, order,
                                 flag)
            finish(f'expec_block_contribution({order}, {spI},{spJ}, {kp}, '
                   f'subtract_gs={flag}) [call {n_call + 1} on one Properties '
                   f'instance, flags {flags}]', val, exp, _nterms(expr),
                   'expec_blocks')
            if res.status == 'violation':
                return
        res.count('history_pairs')
        return
    if kind == 'tm':
        space = case['block']
        n_c = MIN_SPACE[variant].count('p')
        n_a = MIN_SPACE[variant].count('h')
        expr = lib_call(prop.trans_moment_space, order, space)
        m, ex = model_with([(n_c, n_a)])
        val = int(tm.Evaluator(m).value(expr, []))
        exp = explicit_tm(I, ref, ex[('d', n_c, n_a)], n_c, n_a, space, order,
                          True)
        finish(f'trans_moment_space({order}, {space})', val, exp,
               _nterms(expr), 'trans_moments')
        return
    if kind == 'tm_nondefault':
        # pp with a two-particle operator (2 creators, 2 annihilators)
        space = case['block']
        expr = lib_call(prop.trans_moment_space, order, space, 2, 2)
        m, ex = model_with([(2, 2)])
        val = int(tm.Evaluator(m).value(expr, []))
        exp = explicit_tm(I, ref, ex[('d', 2, 2)], 2, 2, space, order, True)
        finish(f'trans_moment_space({order}, {space}, 2, 2)', val, exp,
               _nterms(expr), 'trans_moments')
        return
    if kind == 'tm_mixed':
        # Properties(pp, ip): transition moment of the *right* (ip) states with
        # the default annihilator-only operator
        space = case['block']
        r_isr = IntermediateStates(gs, 'ip')
        prop2 = Properties(lib_isr, r_isr)
        expr = lib_call(prop2.trans_moment_space, order, space, None, None,
                        'right')
        I2 = ISR(ref.rspt, 'ip', max(order, 1), 2)
        m, ex = model_with([(0, 1)])
        val = int(tm.Evaluator(m).value(expr, []))
        exp = explicit_tm(I2, ref, ex[('d', 0, 1)], 0, 1, space, order, True)
        finish(f'Properties(pp, ip).trans_moment_space({order}, {space}, '
               f'lr_isr=right)', val, exp, _nterms(expr), 'trans_moments')
        return
    s1, s2 = spaces_upto(variant, 2)
    if kind == 'sum_ev':
        # ADC(n) expectation value = sum over the blocks (mu, nu) of ADC(n) of all
        # orders <= n - (mu-1) - (nu-1)
        n = order
        expr = lib_call(prop.expectation_value, n, kp)
        m, ex = model_with([(kp, kp)])
        val = int(tm.Evaluator(m).value(expr, []))
        spaces = [s1] + ([s2] if n >= 2 else [])
        exp = 0
        for ka, a in enumerate(spaces):
            for kb, b in enumerate(spaces):
                for o in range(0, n - ka - kb + 1):
                    exp += explicit_expec(I, ref, ex[('d', kp, kp)], kp, a, b, o,
                                          True)
        finish(f'expectation_value(adc_order={n}, {kp})', val, exp % p,
               _nterms(expr), 'sums')
        return
    if kind == 'sum_tm':
        n = order
        n_c = MIN_SPACE[variant].count('p')
        n_a = MIN_SPACE[variant].count('h')
        expr = lib_call(prop.trans_moment, n)
        m, ex = model_with([(n_c, n_a)])
        val = int(tm.Evaluator(m).value(expr, []))
        spaces = [s1] + ([s2] if n >= 2 else [])
        exp = 0
        for ka, a in enumerate(spaces):
            for o in range(0, n - ka + 1):
                exp += explicit_tm(I, ref, ex[('d', n_c, n_a)], n_c, n_a, a, o,
                                   True)
        finish(f'trans_moment(adc_order={n})', val, exp % p, _nterms(expr),
               'sums')
        return
    raise ValueError(kind)


def _rand_d(ref, n_c, n_a):
    """random operator tensor, antisymmetric within creators / annihilators"""
    m = ref.model
    allo = np.arange(m.N)
    base = ref.model.derive(explicit={})
    return base.tensor_block('anti', f'dop{n_c}{n_a}', [allo] * n_c,
                             [allo] * n_a)
