"""C14 - removing or differentiating by a tensor undoes a contraction exactly."""
import itertools
import math

import numpy as np

from ..common import fp, lib_call, rng_for, Refused
from .. import ir

LEVEL = 'exploration'
BATCH = 20
CASE_TIMEOUT = 400
RULE = ("generated expressions (1-3 terms) holding a removable tensor T of rank "
        "(1,1), (2,2), (2,1), (3,3) or a non-symmetric one, with bra-ket symmetry "
        "0/+1/-1, as ADC amplitude vector, occurring once, twice or squared, "
        "carrying target or repeated indices. remove_tensor: every returned block "
        "expression must be (anti)symmetric under the block's symmetry group and "
        "sum_B w_B sum_idx R_B T_B must reproduce the value (w_B = 1/|G_B|, 2/|G_B|"
        " with bra-ket symmetry, |G_B|^-1/2 for ADC amplitudes; T_B carries the "
        "lowest non-target names in slot order). derivative: E(T + eps dT) at k+1 "
        "values of eps -> linear coefficient by Lagrange interpolation in F_p, "
        "compared with sum_B sum_idx D_B dT_B for a random dT with T's symmetry. "
        "non-trivial: reference value non-zero; distinct by (tensor kind, rank, "
        "bk, occurrences, target/repeated pattern, remainder shape).")
ASSUMPTIONS = ["the reading of the documented normalisation stated in DESIGN.md "
               "4/C14 (validated on hand cases and 250+ random cases)"]


def floors(tier):
    q = {'remove_cases': 80, 'derivative_cases': 40, 'points_compared': 1000,
         'nonzero_reference': 100, 'symmetry_checks': 40,
         'multi_occurrence': 20}
    if tier == 'thorough':
        q = {k: v * 5 for k, v in q.items()}
    return q


KINDS = [
    # (ir kind, name, nu, nl, bk options)
    ('anti', 'd', 1, 1, [0, 0, 1, -1]),
    ('anti', 'd', 2, 2, [0, 0, 1, -1]),
    ('anti', 'd', 2, 1, [0]),
    ('anti', 'd', 3, 3, [0, 1]),
    ('sym', 'd', 2, 2, [0, 1]),
    ('amp', 'Y', 1, 1, [0]),
    ('amp', 'Y', 2, 2, [0]),
    ('amp', 'X', 1, 2, [0]),
    ('non', 'd', 2, 0, [0]),
    ('non', 'd', 3, 0, [0]),
]


def gen_cases(tier, seed):
    from ..gen import ExprGen, CATALOGUE
    r = rng_for(seed, 'C14', tier)
    n = 520 if tier == 'quick' else 5000
    cases = []
    cat = [c for c in CATALOGUE if c['name'] not in ('d', 'X', 'Y')]
    for k in range(n):
        op = r.choice(['remove', 'remove', 'deriv', 'deriv'])
        kind, name, nu, nl, bks = r.choice(
            [x for x in KINDS if tier == 'thorough' or x[2] + x[3] <= 4])
        bk = r.choice(bks)
        spin = r.random() < 0.1 and kind != 'amp'
        g = ExprGen(r, cat, spin=spin, general=0.15 if kind != 'amp' else 0.0,
                    exponents=0.0, hyper=0.0, symbols=0.05, max_pool=6)
        nocc = r.choice([1, 1, 1, 2]) if kind != 'amp' else 1
        square = nocc == 1 and r.random() < 0.15 and kind != 'amp'
        # remainder with enough free indices for the tensor slots
        rest = None
        for _try in range(20):
            rest = g.term(nobj=r.randint(1, 3))
            if rest is None:
                continue
            free = ir.term_targets(rest)
            if len(free) >= 1:
                break
        if rest is None:
            continue
        free = ir.term_targets(rest)
        objs = list(rest['objs'])
        used = set(ir.term_indices(rest))
        ok = True
        tensors = []
        for _o in range(nocc):
            slots = []
            spaces = (['virt'] * nu + ['occ'] * nl) if kind == 'amp' else None
            for sl in range(nu + nl):
                want = spaces[sl] if spaces else None
                cand = [s for s in free if want is None or
                        ir.index_space(ir.split_index(s)[0]) == want]
                x = r.random()
                if cand and (x < 0.75 or op == 'deriv'):
                    s = r.choice(cand)
                    free.remove(s)
                elif x < 0.85 and slots and want is None and kind == 'non':
                    s = r.choice(slots)      # repeated index on the tensor
                elif op == 'deriv':
                    # the derivative is defined by the *full* contraction with a
                    # variation of the tensor: no target index on the tensor
                    ok = False
                    break
                else:
                    sp = want or g.pick_space()
                    s = g.fresh(sp, used, r.choice('ab') if spin else '')
                    used.add(s)          # becomes a target on the tensor
                slots.append(s)
            if not ok:
                break
            o = {'t': kind, 'name': name, 'up': slots[:nu]}
            if kind != 'non':
                o['lo'] = slots[nu:]
                o['bk'] = 0
            if kind in ('anti', 'amp'):
                if len(set(o['up'])) < nu or len(set(o.get('lo', []))) < nl:
                    ok = False
            if square:
                o['exp'] = 2
            tensors.append(o)
        if not ok:
            continue
        term = {'pref': rest['pref'], 'objs': objs + tensors}
        tg = ir.term_targets(term)
        on_tensor_targets = any(s in tg for o in tensors
                                for s in ir.obj_index_list(o))
        terms = [term]
        if not on_tensor_targets and not square and nocc == 1 and \
                r.random() < 0.4:
            # more terms with the same targets: alpha-renamed / other remainder
            t2, sign, _ = g.alpha_rename(term, tg)
            t2['pref'] = f"({term['pref']})*({r.choice(['2', '-1', '1/3'])})" \
                         f"*({sign})"
            terms.append(t2)
        cases.append({'id': f'C14-{tier[0]}{seed}-{k:05d}-{op}', 'op': op,
                      'terms': terms, 'targets': tg, 'tname': name,
                      'tkind': kind, 'nu': nu, 'nl': nl, 'bk': bk, 'spin': spin,
                      'nocc': nocc * (2 if square else 1),
                      'explicit': r.random() < 0.2,
                      'mseed': r.randrange(1 << 30)})
    # one call with the tensor in one block at exponents of different parity
    # (X T + Z T^2 [+ W T^3]): the symmetry of T^n depends on the parity of n
    for q in range(10 if tier == 'quick' else 60):
        rank = r.choice([1, 2, 2])
        up = ['a', 'b'][:rank]
        lo = ['i', 'j'][:rank]
        bk = r.choice([0, 0, 1]) if rank == 2 else r.choice([0, 1, -1])
        terms = []
        for n_exp, nm in ((1, 'x'), (2, 'y'), (3, 'w')):
            if n_exp == 3 and r.random() < 0.6:
                continue
            o = {'t': 'anti', 'name': 'd', 'up': list(up), 'lo': list(lo),
                 'bk': 0}
            if n_exp > 1:
                o['exp'] = n_exp
            terms.append({'pref': r.choice(['1', '-1', '1/2', '2']),
                          'objs': [{'t': 'non', 'name': nm, 'up': up + lo}, o]})
        cases.append({'id': f'C14-{tier[0]}{seed}-mixexp-{q}-deriv', 'op': 'deriv',
                      'terms': terms, 'targets': [], 'tname': 'd',
                      'tkind': 'anti', 'nu': rank, 'nl': rank, 'bk': bk,
                      'spin': False, 'nocc': 2, 'explicit': False,
                      'mseed': r.randrange(1 << 30)})
    # fixed rank-(3,3) tensors with indices from three spaces (quick tier has no
    # random (3,3) tensors): products of permutations of two spaces that leave the
    # third untouched must be part of the symmetrisation (repaired defect F26)
    d33 = {'t': 'anti', 'name': 'd', 'up': ['i', 'a', 'b'],
           'lo': ['p', 'q', 'j'], 'bk': 0}
    fixed = [
        ('remove', [{'t': 'non', 'name': 'x',
                     'up': ['i', 'a', 'b', 'p', 'q', 'j']}, d33], 1),
        ('remove', [{'t': 'anti', 'name': 'f', 'up': ['a'], 'lo': ['b'],
                     'bk': 0}, dict(d33, exp=2)], 2),
        ('deriv', [{'t': 'non', 'name': 'x',
                    'up': ['i', 'a', 'b', 'p', 'q', 'j']}, d33], 1),
        ('remove', [{'t': 'non', 'name': 'y', 'up': ['i', 'j']},
                    {'t': 'non', 'name': 'x', 'up': ['a', 'b', 'p', 'q']},
                    d33], 1),
    ]
    for k, (op, objs, nocc) in enumerate(fixed):
        cases.append({'id': f'C14-{tier[0]}{seed}-d33-{k}-{op}', 'op': op,
                      'terms': [{'pref': '1/2', 'objs': objs}], 'targets': [],
                      'tname': 'd', 'tkind': 'anti', 'nu': 3, 'nl': 3, 'bk': 0,
                      'spin': False, 'nocc': nocc, 'explicit': False,
                      'mseed': 4242 + k, 'cost': 50})
    return cases


# -- harness side conventions -------------------------------------------------------
def minimal_names(slots, targets, keep_targets):
    """slots: [(space, spin, original Index)] in slot order. remove_tensor: every
    slot gets the next lowest non-target name of its (space, spin), all distinct.
    derivative (keep_targets): slots holding a target index keep it, equal
    indices get equal names."""
    used = {}
    for s in targets:
        used.setdefault((s.space, s.spin), set()).add(s.name)
    gens = {}
    out = []
    seen = {}
    for space, spin, orig in slots:
        key = (space, spin)
        if keep_targets and orig is not None:
            if orig in targets:
                out.append((orig.name, spin))
                continue
            if orig in seen:
                out.append(seen[orig])
                continue
        if key not in gens:
            gens[key] = (nm for nm in ir.name_sequence(space)
                         if nm not in used.get(key, ()))
        nm = (next(gens[key]), spin)
        if keep_targets and orig is not None:
            seen[orig] = nm
        out.append(nm)
    return out


def group_order(block_slots_u, block_slots_l, anti_or_sym, bk):
    """|G_B|: permutations of equal (space, spin) slots within upper and within
    lower, times 2 for a bra-ket symmetric diagonal block"""
    from collections import Counter
    g = 1
    for part in (block_slots_u, block_slots_l):
        for _, k in Counter(part).items():
            g *= math.factorial(k)
    if bk and len(block_slots_u) == len(block_slots_l) and \
            list(block_slots_u) == list(block_slots_l):
        g *= 2
    return g


def build_tensor(kind, name, nu, idx, bk):
    from adcgen.sympy_objects import (AntiSymmetricTensor, SymmetricTensor,
                                      Amplitude, NonSymmetricTensor)
    if kind == 'non':
        return NonSymmetricTensor(name, idx)
    cls = {'anti': AntiSymmetricTensor, 'sym': SymmetricTensor,
           'amp': Amplitude}[kind]
    if kind == 'amp':   # slot (.idx) order of amplitudes: lower then upper
        nl = len(idx) - nu
        return cls(name, idx[nl:], idx[:nl], bk)
    return cls(name, idx[:nu], idx[nu:], bk)


def parse_block(block):
    """'oov' | 'ov_ab' -> [(space, spin)] per slot"""
    sp = block.split('_')
    spaces = sp[0]
    spins = sp[1] if len(sp) > 1 else 'n' * len(spaces)
    full = {'o': 'occ', 'v': 'virt', 'g': 'general'}
    return [(full[c], '' if s == 'n' else s) for c, s in zip(spaces, spins)]


def make_expr(case):
    from adcgen import Expr
    e = ir.mk_expr(case['terms'])
    kw = {}
    if case['bk'] == 1:
        kw['sym_tensors'] = [case['tname']]
    elif case['bk'] == -1:
        kw['antisym_tensors'] = [case['tname']]
    tg = [ir.mk_index(s) for s in case['targets']]
    if case['explicit']:
        kw['target_idx'] = tg
    return Expr(e, **kw), tg


def run_case(case, res):
    from .. import tm
    E, tg = make_expr(case)
    if E.sympy == 0:
        res.skip('zero input')
        return
    name, kind, nu, bk = case['tname'], case['tkind'], case['nu'], case['bk']
    dims = (4, 4) if case['spin'] else (2, 3)
    sym = {name: bk} if bk else {}
    model = tm.Model(dims[0], dims[1], seed=case['mseed'], spin=case['spin'],
                     sym=sym)
    res.fingerprint = fp(case['op'], kind, nu, case['nl'], bk, case['nocc'],
                         _shape(case['terms']), case['explicit'])
    if case['nocc'] > 1:
        res.count('multi_occurrence')
    if case['op'] == 'remove':
        return run_remove(case, res, E, tg, model)
    return run_deriv(case, res, E, tg, model)


def run_remove(case, res, E, tg, model):
    from adcgen import remove_tensor, Expr
    from .. import tm
    name, kind, nu, bk = case['tname'], case['tkind'], case['nu'], case['bk']
    nslots = nu + case['nl']
    ev = tm.Evaluator(model)
    v0 = ev.value(E.sympy, tg)
    parts = lib_call(remove_tensor, E, name,
                     refusals=('NotImplementedError', 'Inputerror'))
    res.count('remove_cases')
    tot = np.zeros_like(v0)
    observed = {}
    F = model.F
    for blocks, R in parts.items():
        R = R if hasattr(R, 'sympy') else Expr(R)
        blocks = tuple(b for b in blocks if b != 'none')
        if not blocks:
            tot = (tot + ev.value(R.sympy, tg)) % model.p
            continue
        # one tensor per block of the key; names continue over the occurrences
        # in the order of removal. The key is sorted, so every assignment of the
        # key's blocks to removal order is tried.
        ok_any = False
        last = None
        for order in set(itertools.permutations(blocks)):
            used_t = list(tg)
            prod = 1
            w = 1
            tensors = []
            for blk in order:
                slots = [(sp, spin, None) for sp, spin in parse_block(blk)]
                if len(slots) != nslots:
                    prod = None
                    break
                names = minimal_names(slots, used_t, keep_targets=False)
                idx = [ir.mk_index(n + (':' + s if s else ''))
                       for n, s in names]
                T = build_tensor(kind, name, nu, idx, bk)
                tensors.append((T, idx))
                used_t = used_t + idx
                if kind == 'amp':
                    nl_ = case['nl']
                    su, sl = slots[nl_:], slots[:nl_]
                else:
                    su, sl = slots[:nu], slots[nu:]
                key_u = [(a, b) for a, b, _ in su]
                key_l = [(a, b) for a, b, _ in sl]
                if kind == 'non':
                    gord = 1
                else:
                    gord = group_order(key_u, key_l, kind, bk)
                if kind == 'amp':
                    w = w * F.inv(F.sqrt_int(gord)) % model.p
                elif bk:
                    w = w * 2 * F.inv(gord) % model.p
                else:
                    w = w * F.inv(gord) % model.p
                prod = prod * T
            if prod is None:
                continue
            val = ev.value(R.sympy * prod, tg) * w % model.p
            last = val
            # symmetry of R under the group of the first tensor block
            ok_any = True
            cand = (tot + val) % model.p
            break_here = True
            if break_here:
                break
        if not ok_any:
            res.violation(f'remove_tensor({E}, {name}): block key {blocks} does '
                          f'not fit the tensor rank')
            return
        tot = (tot + last) % model.p
        observed[str(blocks)] = str(R)[:160]
        # the block expression carries the symmetry of the removed tensor block
        if len(blocks) == 1 and kind != 'non':
            T, idx = tensors[0]
            order_ = list(tg) + [s for s in idx if s not in tg]
            arr = ev.value(R.sympy, order_)
            slots = parse_block(blocks[0])
            pos = list(range(len(slots)))
            if kind == 'amp':
                nl_ = case['nl']
                groups = [pos[:nl_], pos[nl_:]]
            else:
                groups = [pos[:nu], pos[nu:]]
            for grp in groups:
                for a, b in itertools.combinations(grp, 2):
                    if slots[a] != slots[b]:
                        continue
                    res.count('symmetry_checks')
                    sw = np.swapaxes(arr, order_.index(idx[a]),
                                     order_.index(idx[b]))
                    sgn = 1 if kind == 'sym' else -1
                    if not np.array_equal(sw, (sgn * arr) % model.p):
                        res.violation(
                            f'remove_tensor({E}, {name}): block {blocks} '
                            f'expression {R} is not {"" if sgn == 1 else "anti"}'
                            f'symmetric under P_{idx[a]}{idx[b]}')
                        return
    size = int(v0.size)
    res.count('points_compared', size)
    nz = int(np.count_nonzero(v0))
    res.count('nonzero_reference', int(nz > 0))
    res.nontrivial = nz > 0
    res.observed = {'input': str(E)[:300], 'targets': case['targets'],
                    'blocks': observed}
    if not np.array_equal(tot, v0):
        # multi-occurrence keys: try the other assignments before reporting
        if any(len(b) > 1 for b in parts):
            # the sorted key does not tell which block was removed first (= got
            # the lowest names): every assignment is tried
            for alt in _try_all_orders(case, parts, ev, tg, model):
                if np.array_equal(alt, v0):
                    res.count('multi_occurrence_reordered')
                    return
        res.violation(f'remove_tensor({E}, {name}): re-contracting the block '
                      f'expressions with the tensor blocks (documented '
                      f'normalisation) does not reproduce the value; blocks '
                      f'{observed}')


def _try_all_orders(case, parts, ev, tg, model):
    """multi-occurrence: every assignment of key blocks to removal order"""
    from adcgen import Expr
    name, kind, nu, bk = case['tname'], case['tkind'], case['nu'], case['bk']
    F = model.F
    keys = list(parts)
    options = []
    for blocks in keys:
        R = parts[blocks]
        R = R if hasattr(R, 'sympy') else Expr(R)
        blocks = tuple(b for b in blocks if b != 'none')
        if not blocks:
            options.append([ev.value(R.sympy, tg)])
            continue
        vals = []
        for order in set(itertools.permutations(blocks)):
            used_t = list(tg)
            prod, w = 1, 1
            for blk in order:
                slots = [(sp, spin, None) for sp, spin in parse_block(blk)]
                names = minimal_names(slots, used_t, keep_targets=False)
                idx = [ir.mk_index(n + (':' + s if s else ''))
                       for n, s in names]
                prod = prod * build_tensor(kind, name, nu, idx, bk)
                used_t = used_t + idx
                su, sl = (slots[:nu], slots[nu:]) if kind != 'amp' else \
                    (slots[case['nl']:], slots[:case['nl']])
                gord = 1 if kind == 'non' else group_order(
                    [(a, b) for a, b, _ in su], [(a, b) for a, b, _ in sl],
                    kind, bk)
                if kind == 'amp':
                    w = w * F.inv(F.sqrt_int(gord)) % model.p
                elif bk:
                    w = w * 2 * F.inv(gord) % model.p
                else:
                    w = w * F.inv(gord) % model.p
            vals.append(ev.value(R.sympy * prod, tg) * w % model.p)
        options.append(vals)
    for combo in itertools.product(*options):
        tot = 0
        for v in combo:
            tot = (tot + v) % model.p
        yield tot


def run_deriv(case, res, E, tg, model):
    from adcgen import derivative
    from sympy import Mul, Pow, symbols, Poly, expand, Rational
    from .. import tm
    name, kind, nu, bk = case['tname'], case['tkind'], case['nu'], case['bk']
    k = case['nocc'] + 1
    # E(T + eps dT): explicit model tensors T + eps * dT (both with T's symmetry)
    base = model.derive(explicit={})
    n = nu + case['nl']
    tk = 'anti' if kind in ('anti', 'amp') else kind
    allo = np.arange(model.N)
    if model.spin:
        pass

    def expl(eps):
        def f(m, ud, ld):
            a = base.tensor_block(tk, name, ud, ld)
            b = base.tensor_block(tk, name + '_var', ud, ld)
            return (a + eps * b) % model.p
        return f
    bsym = dict(model.sym)
    if bk:
        bsym[name + '_var'] = bk
    base = base.derive(sym=bsym)
    pts = []
    for eps in range(k + 1):
        me = base.derive(explicit={name: expl(eps)})
        pts.append(tm.Evaluator(me).value(E.sympy, tg))
    x = symbols('x')
    lin = np.zeros_like(pts[0])
    for j in range(k + 1):
        Lj = Mul(*[(x - m) / Rational(j - m) for m in range(k + 1) if m != j])
        c1 = Poly(expand(Lj), x).coeff_monomial(x)
        lin = (lin + model.F.num(c1) * pts[j]) % model.p
    D = lib_call(derivative, E, name,
                 refusals=('NotImplementedError', 'Inputerror', 'RuntimeError'))
    res.count('derivative_cases')
    ev = tm.Evaluator(base)
    # minimal indices of every occurrence (harness's own routine), per block key
    per_key = {}
    for t in tm.terms_of(E.sympy.expand()):
        facs = t.args if isinstance(t, Mul) else (t,)
        targets_t = tg if case['explicit'] else tm.einstein_targets(t)
        for f_ in facs:
            b_ = f_.args[0] if isinstance(f_, Pow) else f_
            if getattr(b_, 'name', None) != name or not hasattr(b_, 'symbol'):
                continue
            slots = [(s.space, s.spin, s) for s in b_.idx]
            names = minimal_names(slots, targets_t, keep_targets=True)
            idx = [ir.mk_index(nm + (':' + sp if sp else ''))
                   for nm, sp in names]
            T = build_tensor(kind, name, nu, idx, bk)
            if T == 0:
                continue
            if isinstance(T, Mul):       # sign from canonicalisation
                T = [a for a in T.args if hasattr(a, 'symbol')][0]
            key = (''.join(s.space[0] for s in T.idx),
                   ''.join(s.spin if s.spin else 'n' for s in T.idx))
            per_key.setdefault(key, set()).add(tuple(T.idx))
    tot = np.zeros_like(lin)
    observed = {}
    for key, Dexpr in D.items():
        tup = per_key.get(tuple(key))
        if not tup or len(tup) != 1:
            res.skip(f'block {key}: tensor index names not unique '
                     f'({tup}) - ambiguous contraction, not judged')
            res.count('ambiguous_skipped')
            return
        idx = list(next(iter(tup)))
        dT = build_tensor(kind, name + '_var', nu, idx, bk) if kind != 'amp' \
            else build_tensor(kind, name + '_var', nu, idx, bk)
        # rebuild with the slot order of .idx
        from adcgen.sympy_objects import (AntiSymmetricTensor, SymmetricTensor,
                                          Amplitude, NonSymmetricTensor)
        if kind == 'non':
            dT = NonSymmetricTensor(name + '_var', idx)
        elif kind == 'amp':
            nl_ = case['nl']
            dT = Amplitude(name + '_var', idx[nl_:], idx[:nl_], bk)
        else:
            cls = AntiSymmetricTensor if kind == 'anti' else SymmetricTensor
            dT = cls(name + '_var', idx[:nu], idx[nu:], bk)
        tot = (tot + ev.value(Dexpr.sympy * dT, tg)) % model.p
        observed[str(key)] = str(Dexpr)[:160]
    size = int(lin.size)
    res.count('points_compared', size)
    nz = int(np.count_nonzero(lin))
    res.count('nonzero_reference', int(nz > 0))
    res.nontrivial = nz > 0
    res.observed = {'input': str(E)[:300], 'targets': case['targets'],
                    'derivative': observed}
    if not np.array_equal(tot, lin):
        res.violation(f'derivative({E}, {name}) contracted with a variation of '
                      f'{name} is not the first-order change of the value; '
                      f'blocks {observed}')


def _shape(terms):
    out = []
    for t in terms:
        names = {}
        row = []
        for ob in t['objs']:
            lab = []
            for s in ir.obj_index_list(ob):
                names.setdefault(s, len(names))
                lab.append(names[s])
            row.append((ob['t'], ob.get('name', ''), tuple(lab),
                        ob.get('exp', 1)))
        out.append(sorted(map(str, row)))
    return sorted(out)
