"""C06 - tensor objects identify exactly the index tuples related by declared symmetry."""
import itertools

import numpy as np

from ..common import fp, lib_call, rng_for
from .. import ir

LEVEL = 'exploration'
BATCH = 40
CASE_TIMEOUT = 300
RULE = ("(a) random tensors (4 classes x bra-ket symmetry 0/+1/-1 x ranks (0..3, "
        "0..3)) over index pools mixing spaces, spins, numbered names, repeated "
        "indices and same-name distinct Index objects: the whole symmetry orbit "
        "(all permutations of upper, of lower, bra-ket swap; brute force) is "
        "constructed through the public constructor and via subs, every element "
        "must be +- the same object with the orbit's sign, forced zeros must be "
        "zero, tuples outside the orbit must not be identified; Kronecker deltas "
        "likewise. (b) assumption steps (real, sym_tensors, antisym_tensors via "
        "constructor kwargs or setters) are idempotent, leave other tensor names "
        "alone and keep the TM value in a model satisfying the assumption. (c) "
        "history monitor on the tensor constructors during real derivations: "
        "every construction returns an orbit element with the orbit's sign and one "
        "representative per orbit. non-trivial: orbit with >= 2 elements / "
        "assumption changed the expression; distinct by (class, bk, ranks, space/"
        "spin pattern).")
ASSUMPTIONS = ["a bra-ket antisymmetric tensor with identical upper and lower index"
               " sets is only counted (the property's forced zeros do not list it)"]

POOL = ['i', 'j', 'k', 'i1', 'j2', 'i12', 'a', 'b', 'a1', 'b10', 'c2', 'p', 'q',
        'p3', 'i:a', 'j:a', 'a:b', 'b:b', 'p:a', 'i:b', 'j:b', 'a:a', 'b:a',
        'p:b', "i'", "a'", "p'", "j'"]


def floors(tier):
    q = {'orbit_elements': 2000, 'orbits_checked': 200, 'forced_zero_cases': 30,
         'other_orbit_probes': 150, 'assumption_cases': 80, 'delta_cases': 40,
         'constructions_monitored': 250}
    if tier == 'thorough':
        q = {k: v * (1 if k == 'constructions_monitored' else 5)
             for k, v in q.items()}
    return q


def gen_cases(tier, seed):
    from ..gen import ExprGen, CATALOGUE
    r = rng_for(seed, 'C06', tier)
    mult = 1 if tier == 'quick' else 10
    cases = []
    k = 0
    for _ in range(900 * mult):
        cls = r.choice(['anti', 'sym', 'amp'])
        bk = r.choice([0, 0, 1, -1])
        nu, nl = r.randint(0, 3), r.randint(0, 3)
        if bk:
            nl = nu
        pool = r.sample(POOL, r.randint(3, 9))
        # same space preference so that bra-ket swaps are decided late
        if r.random() < 0.4:
            sp = r.choice('ia')
            pool = [s for s in POOL if s[0] in ('i', 'j', 'k') ] if sp == 'i' \
                else [s for s in POOL if s[0] in ('a', 'b', 'c')]
        if bk and r.random() < 0.3:
            # equal spaces and equal spin multisets in upper and lower, in
            # different positional order (diagonal space, off-diagonal spin)
            pool = r.choice([['i', 'i:a', 'a', 'a:a', 'j', 'j:a', 'b', 'b:a'],
                             ['i:a', 'i:b', 'a:a', 'a:b', 'j:b', 'b:a'],
                             ['i', 'i:b', 'j:b', 'a', 'a:b', 'p', 'p:a']])
        if r.random() < 0.2:
            # same-name distinct Index objects (as wicks creates them)
            pool = r.choice([['i', "i'", 'j', "j'"], ['a', "a'", 'b'],
                             ['p', "p'", 'q'], ['i', "i'"], ['a', "a'"]])
        up = [r.choice(pool) for _ in range(nu)]
        lo = [r.choice(pool) for _ in range(nl)]
        if bk and r.random() < 0.3:
            # structured: upper and lower span the same (mixed) spaces and carry
            # the same multiset of spin labels in different positional order
            nu = nl = r.choice([2, 2, 3])
            spaces = [r.choice('ova' if False else 'ovg') for _ in range(nu)]
            letters = {'o': 'ijk', 'v': 'abc', 'g': 'pq'}
            spins = [r.choice(['', 'a', 'b']) for _ in range(nu)]
            if len(set(spins)) == 1:
                spins[0] = 'a' if spins[0] != 'a' else ''
            su, sl = list(spins), list(spins)
            r.shuffle(su)
            r.shuffle(sl)
            perm = list(range(nu))
            r.shuffle(perm)

            def mk(sp, spin):
                n = r.choice(letters[sp])
                return n + (':' + spin if spin else '')
            up = [mk(spaces[x], su[x]) for x in range(nu)]
            lo = [mk(spaces[x], sl[x]) for x in range(nu)]
        cases.append({'id': f'C06-{tier[0]}{seed}-{k:05d}-orbit', 'kind': 'orbit',
                      'cls': cls, 'bk': bk, 'up': up, 'lo': lo,
                      'other': r.choice(POOL), 'pos': r.randrange(1 << 16)})
        k += 1
    for _ in range(90 * mult):
        a, b = r.choice(POOL), r.choice(POOL)
        cases.append({'id': f'C06-{tier[0]}{seed}-{k:05d}-delta', 'kind': 'delta',
                      'a': a, 'b': b})
        k += 1
    cat = CATALOGUE + [dict(name='t1cc', t='amp', nu=2, nl=2, rule='amp', w=2),
                       dict(name='t2cc', t='amp', nu=1, nl=1, rule='amp', w=1),
                       dict(name='g', t='anti', nu=2, nl=2, rule='any', w=2),
                       dict(name='h', t='anti', nu=1, nl=1, rule='any', w=2)]
    for _ in range(200 * mult):
        spin = r.random() < 0.2
        # powers of tensors: a sign from a bra-ket swap has to be raised to the
        # exponent as well
        g = ExprGen(r, cat, spin=spin, general=0.2,
                    exponents=r.choice([0.0, 0.35, 0.7]))
        first = g.term(nobj=r.randint(1, 4))
        if first is None:
            continue
        tg = ir.term_targets(first)
        terms = [first]
        for _t in range(r.randint(0, 2)):
            t2 = g.term(targets=tg, nobj=r.randint(1, 3))
            if t2 is not None:
                terms.append(t2)
        names = ['d', 'g', 'h', 'V', 'f', 'v', 's']
        sym = r.sample(names, r.randint(0, 2))
        anti = [n for n in r.sample(names, r.randint(0, 2)) if n not in sym]
        if not spin and r.random() < 0.25:
            # a power of a tensor written with the virtual indices on top (the
            # bra-ket swap gives the sign), declared (anti)symmetric
            used = set(ir.term_indices(first))
            nm = r.choice(['d', 'h'])
            a_, i_ = g.fresh('virt', used, ''), None
            used.add(a_)
            i_ = g.fresh('occ', used, '')
            first['objs'].append({'t': 'anti', 'name': nm, 'up': [a_],
                                  'lo': [i_], 'bk': 0,
                                  'exp': r.choice([2, 2, 3, 4])})
            first['objs'].append({'t': 'non', 'name': 'x', 'up': [a_, i_]})
            terms = [first]
            if nm not in sym and nm not in anti:
                (anti if r.random() < 0.7 else sym).append(nm)
        is_real = r.random() < 0.5
        if is_real:  # real orbitals: V and f are bra-ket symmetric
            anti = [n for n in anti if n not in ('V', 'f')]
        cases.append({'id': f'C06-{tier[0]}{seed}-{k:05d}-assume',
                      'kind': 'assume', 'terms': terms, 'targets': tg,
                      'real': is_real, 'sym': sym, 'anti': anti,
                      'spin': spin, 'via': r.choice(['ctor', 'setter']),
                      'mseed': r.randrange(1 << 30)})
        k += 1
    for name in ['gs_energy_2', 'isr_block_ip', 'real_pipeline']:
        cases.append({'id': f'C06-{tier[0]}{seed}-hist-{name}', 'kind': 'history',
                      'pipeline': name, 'cost': 100, 'timeout': 1500})
    return cases


def parity(perm):
    return -1 if sum(1 for x in range(len(perm)) for y in range(x + 1, len(perm))
                     if perm[x] > perm[y]) % 2 else 1


def _cls(name):
    from adcgen.sympy_objects import (AntiSymmetricTensor, SymmetricTensor,
                                      Amplitude)
    return {'anti': AntiSymmetricTensor, 'sym': SymmetricTensor,
            'amp': Amplitude}[name]


def run_case(case, res):
    return {'orbit': run_orbit, 'delta': run_delta, 'assume': run_assume,
            'history': run_history}[case['kind']](case, res)


def run_orbit(case, res):
    from sympy import S, Dummy
    cls = _cls(case['cls'])
    bk = case['bk']
    up = ir.mk_indices(case['up'])
    lo = ir.mk_indices(case['lo'])
    nu, nl = len(up), len(lo)
    anti = case['cls'] != 'sym'
    base = lib_call(cls, 'T', up, lo, bk)
    res.fingerprint = fp(case['cls'], bk, nu, nl,
                         sorted((s.space, s.spin) for s in up),
                         sorted((s.space, s.spin) for s in lo),
                         len(set(up)) < nu or len(set(lo)) < nl)
    forced_zero = anti and (len(set(up)) < nu or len(set(lo)) < nl)
    res.observed = {'cls': case['cls'], 'bk': bk, 'upper': case['up'],
                    'lower': case['lo'], 'object': str(base)}
    if forced_zero:
        res.count('forced_zero_cases')
        res.nontrivial = True
        if base is not S.Zero:
            res.violation(f'{case["cls"]}("T", {up}, {lo}, {bk}) has a repeated '
                          f'index in an antisymmetric group but is {base}')
        return
    diag_antisym = bk == -1 and sorted(map(id, up)) == sorted(map(id, lo))
    if base is S.Zero:
        if diag_antisym:
            res.count('diag_antisym_zero_observed')
            return
        res.violation(f'{case["cls"]}("T", {up}, {lo}, {bk}) is zero although no '
                      f'symmetry forces it')
        return
    res.count('orbits_checked')
    orbit = set()
    n_el = 0
    # placeholders for the subs variant
    ph_u = [Dummy(f'u{k}') for k in range(nu)]
    ph_l = [Dummy(f'l{k}') for k in range(nl)]
    for pu in itertools.permutations(range(nu)):
        for pl in itertools.permutations(range(nl)):
            for swap in ((False, True) if bk else (False,)):
                u2 = tuple(up[x] for x in pu)
                l2 = tuple(lo[x] for x in pl)
                sg = (parity(pu) * parity(pl)) if anti else 1
                if swap:
                    u2, l2 = l2, u2
                    sg *= bk
                orbit.add((u2, l2))
                obj = lib_call(cls, 'T', u2, l2, bk)
                n_el += 1
                if (obj - sg * base) is not S.Zero:
                    if diag_antisym:
                        res.count('diag_antisym_observed')
                        continue
                    res.violation(
                        f'{case["cls"]}("T", {u2}, {l2}, {bk}) = {obj} is not '
                        f'{sg} * {base} although the tuples are related by the '
                        f'declared symmetry (upper perm {pu}, lower perm {pl}, '
                        f'bra-ket swap {swap})', _tags(case))
                    return
    res.count('orbit_elements', n_el)
    res.nontrivial = n_el >= 2
    # index substitution into an existing object: a random transposition
    allidx = list(dict.fromkeys(up + lo))
    if len(allidx) >= 2:
        x, y = allidx[case['pos'] % len(allidx)], \
            allidx[(case['pos'] // 7) % len(allidx)]
        if x is not y:
            sub = base.subs({x: y, y: x}, simultaneous=True)
            u3 = tuple(y if s is x else x if s is y else s for s in up)
            l3 = tuple(y if s is x else x if s is y else s for s in lo)
            direct = lib_call(cls, 'T', u3, l3, bk)
            res.count('subs_probes')
            if (sub - direct) is not S.Zero and not diag_antisym:
                res.violation(f'{base}.subs({x}<->{y}) = {sub} differs from the '
                              f'direct construction {direct}', _tags(case))
                return
    # a tuple outside the orbit must not be identified with the base
    other = ir.mk_index(case['other'])
    if nu + nl:
        pos = case['pos'] % (nu + nl)
        full = list(up + lo)
        if full[pos] is not other:
            full[pos] = other
            u4, l4 = tuple(full[:nu]), tuple(full[nu:])
            if (u4, l4) not in orbit:
                o2 = lib_call(cls, 'T', u4, l4, bk)
                res.count('other_orbit_probes')
                if o2 is not S.Zero and ((o2 - base) is S.Zero
                                         or (o2 + base) is S.Zero):
                    res.violation(f'{case["cls"]}("T", {u4}, {l4}, {bk}) is '
                                  f'identified with {base} although the tuples '
                                  f'are not related by the declared symmetry')
                    return
    # moving an index between upper and lower without bra-ket symmetry
    if bk == 0 and nu and nl and nu == nl and not anti_equal(up, lo):
        o3 = lib_call(cls, 'T', lo, up, 0)
        res.count('other_orbit_probes')
        if o3 is not S.Zero and ((o3 - base) is S.Zero or (o3 + base) is S.Zero)\
                and sorted(map(id, up)) != sorted(map(id, lo)):
            res.violation(f'{case["cls"]}("T", {lo}, {up}, 0) identified with '
                          f'{base} without bra-ket symmetry')


def anti_equal(a, b):
    return sorted(map(id, a)) == sorted(map(id, b))


def _tags(case):
    return []


def run_delta(case, res):
    from sympy import S
    from adcgen.sympy_objects import KroneckerDelta
    a, b = ir.mk_index(case['a']), ir.mk_index(case['b'])
    d1 = lib_call(KroneckerDelta, a, b)
    d2 = lib_call(KroneckerDelta, b, a)
    res.count('delta_cases')
    res.fingerprint = fp('delta', a.space, a.spin, b.space, b.spin, a is b)
    res.observed = {'a': case['a'], 'b': case['b'], 'delta': str(d1)}
    res.nontrivial = True
    if a is b:
        if d1 is not S.One:
            res.violation(f'delta({a},{a}) = {d1}')
        return
    # expected from the case's own labels, not from the library's attributes
    (na, sa), (nb, sb) = (ir.split_index(case[x].replace("'", ''))
                          for x in ('a', 'b'))
    zero = ({ir.index_space(na), ir.index_space(nb)} == {'occ', 'virt'}) or \
        bool(sa and sb and sa != sb)
    if zero:
        if d1 is not S.Zero or d2 is not S.Zero:
            res.violation(f'delta({a},{b}) between different spaces/spins is '
                          f'{d1} / {d2}')
        return
    if d1 is S.Zero or d1 is S.One:
        res.violation(f'delta({a},{b}) = {d1} although neither forced zero nor '
                      f'identical indices')
        return
    if (d1 - d2) is not S.Zero:
        res.violation(f'delta({a},{b}) = {d1} != delta({b},{a}) = {d2}')
        return
    if d1 ** 2 != d1 or d1 ** 3 != d1:
        res.violation(f'delta({a},{b})**n = {d1**2}')


def run_assume(case, res):
    from adcgen import Expr
    from sympy import S
    from .. import tm
    e = ir.mk_expr(case['terms'])
    if e == 0:
        res.skip('zero input')
        return
    real, sym, anti = case['real'], case['sym'], case['anti']
    tg = [ir.mk_index(s) for s in case['targets']]
    plain = Expr(e)

    def build():
        if case['via'] == 'ctor':
            return Expr(e, real=real, sym_tensors=sym or None,
                        antisym_tensors=anti or None)
        x = Expr(e)
        if sym:
            x.set_sym_tensors(sym)
        if anti:
            x.set_antisym_tensors(anti)
        if real:
            x.make_real()
        return x
    A = lib_call(build, refusals=('Inputerror', 'NotImplementedError'))
    res.count('assumption_cases')
    res.nontrivial = A.sympy != plain.sympy
    res.fingerprint = fp('assume', real, sorted(sym), sorted(anti), case['via'],
                         _shape(case['terms']))
    res.observed = {'input': str(plain)[:250], 'output': str(A)[:250],
                    'real': real, 'sym': sym, 'anti': anti}
    # idempotent
    def again():
        B = A.copy()
        if real:
            B.make_real()
        if sym or real:
            B.set_sym_tensors(list(A.sym_tensors))
        if anti:
            B.set_antisym_tensors(list(A.antisym_tensors))
        return B, Expr(A.sympy, **A.assumptions)
    B, C = lib_call(again)
    for X, how in ((B, 're-applying the setters'), (C, 're-wrapping')):
        if (X.sympy - A.sympy) is not S.Zero and (X.sympy - A.sympy).expand() != 0:
            res.violation(f'assumptions are not idempotent ({how}): {A} -> {X}')
            return
    # tensors whose name is not concerned are untouched
    concerned = set(sym) | set(anti)
    if real:
        concerned |= {'V', 'f', 't1cc', 't2cc', 't1', 't2'}

    def others(x):
        out = []
        for t in tm.terms_of(x.expand()):
            from sympy import Mul, Pow
            for f in (t.args if isinstance(t, Mul) else (t,)):
                b = f.args[0] if isinstance(f, Pow) else f
                if hasattr(b, 'symbol') and b.name not in concerned:
                    out.append(str(f))
        return sorted(out)
    if others(plain.sympy) != others(A.sympy):
        res.violation(f'assumptions {concerned} touched other tensors: {plain} -> '
                      f'{A}')
        return
    # value in a model satisfying the assumptions
    msym = {n: 1 for n in sym}
    msym.update({n: -1 for n in anti})
    if real:
        msym.update({'V': 1, 'f': 1})
    alias = {'t1cc': 't1', 't2cc': 't2'} if real else {}
    dims = (4, 4) if case['spin'] else (2, 3)
    model = tm.Model(dims[0], dims[1], seed=case['mseed'], spin=case['spin'],
                     sym=msym, alias=alias)
    ev = tm.Evaluator(model)
    v0, v1 = ev.value(plain.sympy, tg), ev.value(A.sympy, tg)
    res.count('points_compared', int(v0.size))
    if not np.array_equal(v0, v1):
        res.violation(f'assumptions real={real} sym={sym} antisym={anti} change '
                      f'the value in a model that satisfies them: {plain} -> {A}')


def run_history(case, res):
    """history monitor on the constructors of the tensor classes"""
    from sympy import S, Mul
    from adcgen import sympy_objects as so
    from .. import monitor
    state = {'n': 0, 'bad': [], 'reps': {}, 'zero': 0}

    def check(cls, name, upper, lower, bra_ket_sym, result):
        from adcgen.indices import Index
        state['n'] += 1
        upper, lower = tuple(upper), tuple(lower)
        if not all(isinstance(s, Index) for s in upper + lower):
            return
        anti = not issubclass(cls, so.SymmetricTensor)
        if result is S.Zero:
            state['zero'] += 1
            if not (anti and (len(set(upper)) < len(upper)
                              or len(set(lower)) < len(lower))):
                state['bad'].append(f'{cls.__name__}({name},{upper},{lower},'
                                    f'{bra_ket_sym}) -> 0')
            return
        sign = 1
        T = result
        if isinstance(result, Mul):
            c, T = result.as_coeff_Mul()
            sign = int(c)
        ru, rl = tuple(T.upper), tuple(T.lower)
        bk = int(bra_ket_sym)
        cands = []
        for swap in ((False, True) if bk and len(upper) == len(lower)
                     else (False,)):
            u, l_ = (lower, upper) if swap else (upper, lower)
            if sorted(map(id, u)) == sorted(map(id, ru)) and \
                    sorted(map(id, l_)) == sorted(map(id, rl)):
                sg = 1
                if anti:
                    sg = parity([list(map(id, u)).index(id(s)) for s in ru]) * \
                        parity([list(map(id, l_)).index(id(s)) for s in rl])
                if swap:
                    sg *= bk
                cands.append(sg)
        if sign not in cands:
            state['bad'].append(f'{cls.__name__}({name},{upper},{lower},{bk}) -> '
                                f'{result}: not an orbit element with the '
                                f'orbit\'s sign (expected one of {cands})')
            return
        key = (cls.__name__, str(name), bk,
               frozenset([tuple(sorted(map(id, upper))),
                          tuple(sorted(map(id, lower)))]) if bk else
               (tuple(sorted(map(id, upper))), tuple(sorted(map(id, lower)))))
        rep = (tuple(map(id, ru)), tuple(map(id, rl)))
        if state['reps'].setdefault(key, rep) != rep:
            state['bad'].append(f'two canonical representatives for one orbit: '
                                f'{cls.__name__} {name} {upper} {lower}')

    def factory(orig):
        def new(cls, name, upper, lower, bra_ket_sym=0):
            result = orig(cls, name, upper, lower, bra_ket_sym)
            try:
                check(cls, name, upper, lower, bra_ket_sym, result)
            except Exception as ex:  # noqa: BLE001
                monitor.ERRORS.append(f'{type(ex).__name__}: {ex}')
            return result
        return staticmethod(new)
    undos = []
    for cls in (so.AntiSymmetricTensor, so.SymmetricTensor):
        orig = cls.__dict__['__new__']
        f = orig.__func__ if isinstance(orig, staticmethod) else orig
        setattr(cls, '__new__', factory(f))
        undos.append((cls, orig))
    try:
        lib_call(_PIPE[case['pipeline']])
    finally:
        for cls, orig in undos:
            setattr(cls, '__new__', orig)
    res.count('constructions_monitored', state['n'])
    res.count('constructions_zero', state['zero'])
    res.count('distinct_orbits_seen', len(state['reps']))
    res.nontrivial = state['n'] > 0
    res.fingerprint = fp('history', case['pipeline'])
    res.observed = {'constructions': state['n'], 'orbits': len(state['reps'])}
    if monitor.ERRORS:
        res.status = 'harness_error'
        res.detail = monitor.ERRORS[0]
    if state['bad']:
        res.violation(state['bad'][0])


def _p1():
    from adcgen import GroundState, Operators
    GroundState(Operators('mp')).energy(2)


def _p2():
    from adcgen import (GroundState, Operators, IntermediateStates,
                        SecularMatrix)
    isr = IntermediateStates(GroundState(Operators('mp')), 'ip')
    SecularMatrix(isr).isr_matrix_block(2, 'h,h', 'i,j')


def _p3():
    from adcgen import (GroundState, Operators, IntermediateStates,
                        SecularMatrix, Expr, simplify)
    isr = IntermediateStates(GroundState(Operators('mp')), 'pp')
    m = SecularMatrix(isr).isr_matrix_block(1, 'ph,ph', 'ia,jb')
    e = Expr(m, real=True)
    simplify(e)
    e.use_symbolic_denominators()


_PIPE = {'gs_energy_2': _p1, 'isr_block_ip': _p2, 'real_pipeline': _p3}


def _shape(terms):
    out = []
    for t in terms:
        out.append(sorted((o['t'], o.get('name', ''), len(o.get('up', [])),
                           len(o.get('lo', [])), o.get('exp', 1))
                          for o in t['objs']))
    return sorted(out)
