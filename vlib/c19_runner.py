"""Sub-process runner of C19: executes ONE request after a random prior history, under
the hash seed / package copy chosen by the parent, and prints a JSON record:
printed text after substitute_contracted, per-term value fingerprints on fixed tensor
models, and what the in-process psi / norm_factor monitor saw."""
import hashlib
import json
import random
import sys


def history(hseed, level):
    """random prior API calls: advance the generic-index counters, fill member
    caches, request explicit indices that collide with generic names"""
    from adcgen import (Indices, GroundState, Operators, IntermediateStates,
                        SecularMatrix, get_symbols, Intermediates, Expr)
    if not hseed:
        return []
    r = random.Random(hseed)
    done = []
    mp = GroundState(Operators('mp'))
    isr = IntermediateStates(mp, 'pp')
    shared = {'gs': mp, 'isr': isr}
    for _ in range(r.randint(1, 5 if level == 'quick' else 9)):
        c = r.choice(['gen', 'gen', 'sym', 'e', 'psi', 'amp', 'ov', 'ip', 'itmd',
                      're', 'symspin', 'genspin'])
        done.append(c)
        if c == 'gen':
            Indices().get_generic_indices(occ=r.randint(1, 9),
                                          virt=r.randint(1, 9),
                                          general=r.randint(0, 3))
        elif c == 'sym':
            get_symbols(r.sample(['i3', 'a4', 'j5', 'k3', 'b3', 'c5', 'l4',
                                  'p3', 'a3', 'i4'], r.randint(1, 4)))
        elif c == 'e':
            mp.energy(r.choice([1, 2, 3]))
        elif c == 'psi':
            mp.psi(r.choice([1, 2]), r.choice(['bra', 'ket']))
            mp.norm_factor(2)
        elif c == 'amp':
            mp.amplitude(r.choice([1, 2]), 'pphh', 'ijab')
        elif c == 'ov':
            isr.overlap_precursor(r.choice([1, 2]), 'ph,ph', 'ia,jb')
        elif c == 'ip':
            SecularMatrix(IntermediateStates(mp, 'ip')).isr_matrix_block(
                r.choice([1, 2]), 'h,h', 'i,j')
        elif c == 'itmd':
            it = Intermediates().available[r.choice(['t2_1', 't1_2', 't2_2',
                                                     'p0_2_oo', 'p0_3_oo'])]
            it.expand_itmd(fully_expand=r.random() < 0.5)
        elif c == 're':
            GroundState(Operators('re')).energy(2)
        elif c == 'symspin':
            get_symbols(r.sample(['i3', 'a3', 'j4', 'b4', 'k5'], 2),
                        r.choice(['aa', 'ab', 'bb']))
        elif c == 'genspin':
            Indices().get_generic_indices(occ_a=r.randint(1, 8),
                                          virt_b=r.randint(1, 8))
    return done, shared


def do_request(name, shared):
    from adcgen import (GroundState, Operators, IntermediateStates,
                        SecularMatrix, Properties, Expr, Intermediates,
                        simplify, reduce_expr, factor_intermediates,
                        transform_to_spatial_orbitals, generate_code)
    mp = shared.get('gs') if shared and name.endswith('@shared') else \
        GroundState(Operators('mp'))
    name = name.replace('@shared', '')
    isr = IntermediateStates(mp, 'pp')
    m = SecularMatrix(isr)
    tg = ''
    real = False
    if name == 'e3':
        r = mp.energy(3)
    elif name == 'e2':
        r = mp.energy(2)
    elif name == 'amp2':
        r, tg = mp.amplitude(2, 'ph', 'ia'), 'ia'
    elif name == 'amp2d':
        r, tg = mp.amplitude(2, 'pphh', 'ijab'), 'ijab'
    elif name == 'amp2_k3c3':
        r, tg = mp.amplitude(2, 'ph', 'k3c3'), 'k3c3'
    elif name == 'ev2':
        r = mp.expectation_value(2, 1)
    elif name == 'm2':
        r, tg = m.isr_matrix_block(2, 'ph,ph', 'ia,jb'), 'iajb'
    elif name == 'm1c':
        r, tg = m.isr_matrix_block(1, 'ph,pphh', 'ia,jkbc'), 'iajkbc'
    elif name == 'ip_cpl':
        r = SecularMatrix(IntermediateStates(mp, 'ip')).isr_matrix_block(
            2, 'h,phh', 'i,jka')
        tg = 'ijka'
    elif name == 'ea2':
        r = SecularMatrix(IntermediateStates(mp, 'ea')).isr_matrix_block(
            2, 'p,p', 'a,b')
        tg = 'ab'
    elif name == 'tm2':
        r = Properties(isr).trans_moment_space(2, 'ph')
    elif name == 'ov2':
        r, tg = isr.overlap_precursor(2, 'ph,ph', 'ia,jb'), 'iajb'
    elif name == 'mvp1':
        r, tg = m.mvp_block_order(1, 'ph', 'ph,pphh', 'ia'), 'ia'
    elif name == 're_amp2':
        r = GroundState(Operators('re'), True).amplitude(2, 'pphh', 'ijab')
        tg = 'ijab'
    elif name == 're_e3':
        r = GroundState(Operators('re')).energy(3)
    elif name == 'expec1':
        r = Properties(isr).expec_block_contribution(1, 'ph,ph')
    elif name == 'itmd_t2_2':
        r = Intermediates().available['t2_2'].expand_itmd(
            indices='ijab', fully_expand=False).sympy
        tg = 'ijab'
    elif name == 'itmd_p03oo':
        # two successive full expansions of one intermediate (the second with
        # target names that are plain low letters): served from the cached base
        # version, whose contracted indices have to be renewed on every request
        it = Intermediates().available['p0_3_oo']
        it.expand_itmd(fully_expand=True)
        r = it.expand_itmd(indices='lm', fully_expand=True).sympy
        tg = 'lm'
    elif name == 'itmd_t1_3':
        r = Intermediates().available['t1_3'].expand_itmd(
            indices='ia', fully_expand=True).sympy
        tg = 'ia'
    elif name == 'spin_generic':
        # spin-integrated expression with numbered target names, contracted
        # indices replaced by fresh generic (spin-labelled) indices
        from adcgen import get_symbols
        from adcgen.sympy_objects import (AntiSymmetricTensor, Amplitude,
                                          NonSymmetricTensor)
        i3, j, k, a3, b, c = get_symbols(['i3', 'j', 'k', 'a3', 'b', 'c'])
        from adcgen import tensor_names as tn
        x = (AntiSymmetricTensor(tn.eri, (i3, b), (j, a3))
             * Amplitude(tn.gs_amplitude + '1', (b, c), (j, k))
             * Amplitude(tn.gs_amplitude + '2', (c,), (k,)))
        x = Expr(x, real=True, target_idx=[i3, a3])
        x = transform_to_spatial_orbitals(x, 'i3a3', 'aa', restricted=False,
                                          expand_eri=False)
        x = x.substitute_with_generic()
        E = x if hasattr(x, 'sympy') else Expr(x, real=True)
        return E.sympy, '__spin_i3a3', True, None
    elif name == 'spin_direct':
        # an expression written directly with spin-labelled indices (numbered
        # target names that exist only with a spin label)
        from adcgen import get_symbols, tensor_names as tn
        from adcgen.sympy_objects import AntiSymmetricTensor, Amplitude
        i3, a3 = get_symbols(['i3', 'a3'], 'aa')
        j, k, b, c = get_symbols(['j', 'k', 'b', 'c'], 'aaaa')
        x = (AntiSymmetricTensor(tn.eri, (i3, b), (j, a3))
             * Amplitude(tn.gs_amplitude + '1', (b, c), (j, k))
             * Amplitude(tn.gs_amplitude + '2', (c,), (k,)))
        x = Expr(x, real=True, target_idx=[i3, a3])
        x = x.substitute_with_generic()
        E = x if hasattr(x, 'sympy') else Expr(x, real=True)
        return E.sympy, '__spin_i3a3', True, None
    elif name == 'norm4':
        r = mp.norm_factor(4)
    elif name == 'rt_amp2':
        # print -> import of a library-built expression with ground-state
        # amplitudes (tensor kinds are decided by the configured names)
        from adcgen import import_from_sympy_latex
        x = Expr(mp.amplitude(2, 'pphh', 'ijab'), target_idx='ijab')
        x = x.substitute_contracted()
        y = import_from_sympy_latex(str(x))
        y = Expr(y.sympy, target_idx='ijab')
        from adcgen.sympy_objects import SymbolicTensor
        kinds = sorted({(type(a_).__name__, str(a_.name))
                        for a_ in y.sympy.atoms(SymbolicTensor)})
        kinds0 = sorted({(type(a_).__name__, str(a_.name))
                         for a_ in x.sympy.atoms(SymbolicTensor)})
        if kinds != kinds0:
            raise AssertionError(f'tensor kinds changed by print -> import: '
                                 f'{kinds0} -> {kinds}')
        if (y.sympy - x.sympy).expand() != 0:
            raise AssertionError('print -> import does not restore the '
                                 'expression')
        r, tg = y.sympy, 'ijab'
    elif name == 'import_default':
        # a text written with the default tensor names, imported with
        # convert_default_names=True (how the repository's reference data is
        # read): equals the natively built expression under every configuration
        from adcgen import import_from_sympy_latex, get_symbols
        from adcgen import tensor_names as tn
        from adcgen.sympy_objects import AntiSymmetricTensor, NonSymmetricTensor
        txt = (r"\frac{{V^{ij}_{ab}}}{{e_{a}} + {e_{b}} - {e_{i}} - {e_{j}}}"
               r" + \frac{{f^{i}_{a}} {V^{jk}_{bc}}}{2 {e_{a}} - 2 {e_{i}}}")
        y = import_from_sympy_latex(txt, convert_default_names=True)
        i, j, k, a, b, c = get_symbols('ijkabc')
        E_ = lambda s_: NonSymmetricTensor(tn.orb_energy, (s_,))  # noqa: E731
        nat = AntiSymmetricTensor(tn.eri, (i, j), (a, b)) \
            / (E_(a) + E_(b) - E_(i) - E_(j)) \
            + AntiSymmetricTensor(tn.fock, (i,), (a,)) \
            * AntiSymmetricTensor(tn.eri, (j, k), (b, c)) / (2 * E_(a) - 2 * E_(i))
        if (y.sympy - nat).expand() != 0:
            raise AssertionError(f'import of a default-name text differs from '
                                 f'the native expression: {y.sympy} vs {nat}')
        r, tg = y.sympy, 'ijkabc'
    elif name == 'real_ov2':
        # real orbitals: complex-conjugate amplitudes (configured name + order +
        # 'cc') are renamed
        r, tg, real = isr.overlap_precursor(2, 'ph,ph', 'ia,jb'), 'iajb', True
    elif name == 'spin_ov2':
        x = Expr(isr.overlap_precursor(2, 'ph,ph', 'ia,jb'), real=True,
                 target_idx='iajb')
        x = transform_to_spatial_orbitals(x, 'iajb', 'aaaa', restricted=False)
        x = x if hasattr(x, 'sympy') else Expr(x, real=True)
        r, tg, real = x.sympy, '__spin_iajb', True
    elif name == 'prec3s':
        # bra precursor at third order with first-order singles: products of
        # several imported wavefunctions of the same order
        gs1 = GroundState(Operators('mp'), True)
        r, tg = IntermediateStates(gs1, 'pp').precursor(3, 'ph', 'bra', 'ia'), \
            '__ops_ia'
    elif name == 'itmd_p2':
        # a ground-state density tensor (configured name) times a free tensor,
        # expanded through the registered intermediates
        from adcgen import tensor_names, get_symbols
        from adcgen.sympy_objects import AntiSymmetricTensor, NonSymmetricTensor
        i, j, a, b = get_symbols('ijab')
        x = (AntiSymmetricTensor(tensor_names.gs_density + '2', (i,), (j,), 1)
             * NonSymmetricTensor('x', (i, j))
             + AntiSymmetricTensor(tensor_names.gs_density + '2', (a,), (b,), 1)
             * NonSymmetricTensor('x', (a, b)))
        x = Expr(x, real=True, sym_tensors=[tensor_names.gs_density + '2'])
        r, real = x.expand_intermediates().sympy, True
    elif name == 'red_e2':
        x = Expr(mp.energy(2), real=True)
        x.substitute_contracted()
        x = reduce_expr(x.diagonalize_fock())
        r, real = x.sympy, True
    elif name == 'sym_e2':
        x = Expr(mp.energy(2), real=True)
        x = reduce_expr(x.diagonalize_fock())
        x.use_symbolic_denominators()
        r, real = transform_to_spatial_orbitals(x, '', '', restricted=False)\
            .sympy, True
    elif name == 'fac_m1':
        x = Expr(m.isr_matrix_block(1, 'ph,ph', 'ia,jb'), real=True,
                 target_idx='iajb')
        x = simplify(x)
        x.diagonalize_fock()
        x = reduce_expr(x)
        r, tg, real = factor_intermediates(x, max_order=1).sympy, 'iajb', True
    elif name == 'code_m1':
        x = Expr(m.isr_matrix_block(1, 'ph,ph', 'ia,jb'), real=True,
                 target_idx='iajb')
        x = simplify(x)
        code = generate_code(x, 'ia,jb', bra_ket_sym=1)
        return None, 'iajb', True, code
    else:
        raise ValueError(name)
    return r, tg, real, None


def main():
    import os
    repo, request, hseed, level, names_json, verif_root, deps = sys.argv[1:8]
    sys.path[:0] = [repo, verif_root, deps]
    hseed = int(hseed)
    names = json.loads(names_json)
    import adcgen
    assert os.path.realpath(adcgen.__file__).startswith(
        os.path.realpath(repo)), (adcgen.__file__, repo)
    from adcgen import Expr, GroundState, get_symbols
    from adcgen.indices import Index
    from vlib import tm
    # in-process monitor: psi / norm_factor never share contracted indices
    seen_idx = {}
    clash = []
    depth = [0]

    def watch(meth):
        orig = getattr(GroundState, meth)

        def wrapper(self, *a, **kw):
            depth[0] += 1
            try:
                out = orig(self, *a, **kw)
            finally:
                depth[0] -= 1
            # only outermost calls: norm_factor builds its result from psi
            if depth[0] == 0 and hasattr(out, 'atoms'):
                # within one result every summation index occurs exactly twice
                # per term (two factors sharing indices show up as 4)
                for t_ in tm.terms_of(out.expand()):
                    cnt = tm.count_indices(t_)
                    bad = [s_ for s_, n_ in cnt.items() if n_ > 2]
                    if bad:
                        clash.append(f'{meth}{a}: index {bad[0]} occurs '
                                     f'{cnt[bad[0]]} times in one term (factors '
                                     f'share contracted indices)')
                        break
                idx = {s for s in out.atoms(Index)}
                key = (id(self), meth, a)
                for s in idx:
                    if s in seen_idx and seen_idx[s] is not None:
                        clash.append(f'{meth}{a} shares contracted index {s} '
                                     f'with an earlier {seen_idx[s]}')
                for s in idx:
                    seen_idx[s] = f'{meth}{a}'
            return out
        setattr(GroundState, meth, wrapper)
    watch('psi')
    watch('norm_factor')
    # ... and neither do two expansions of registered intermediates
    from adcgen.intermediates import RegisteredIntermediate
    itmd_seen = {}
    itmd_depth = [0]
    orig_expand = RegisteredIntermediate.expand_itmd

    def expand_watch(self, *a, **kw):
        itmd_depth[0] += 1
        try:
            out = orig_expand(self, *a, **kw)
        finally:
            itmd_depth[0] -= 1
        if itmd_depth[0] == 0 and hasattr(out, 'sympy'):
            tgt = set(out.provided_target_idx or ())
            me = f'{type(self).__name__}.expand_itmd{a}{kw or ""}'
            contracted = {s for s in out.sympy.atoms(Index) if s not in tgt}
            if out.provided_target_idx is not None:
                for s in contracted:
                    if s in itmd_seen:
                        clash.append(f'{me} shares contracted index {s} with an '
                                     f'earlier {itmd_seen[s]}')
                        break
                for s in contracted:
                    itmd_seen[s] = me
        return out
    RegisteredIntermediate.expand_itmd = expand_watch
    h = history(hseed, level)
    done, shared = h if h else ([], None)
    r, tg, real, code = do_request(request, shared)
    out = {'request': request, 'history': done, 'hseed': hseed,
           'hashseed': os.environ.get('PYTHONHASHSEED'),
           'psi_norm_calls': len(seen_idx), 'clashes': clash[:3],
           'itmd_indices_monitored': len(itmd_seen)}
    if code is not None:
        out['text'] = code
        out['terms'] = code.count('\n')
        out['term_values'] = []
        out['value'] = None
        print('JSON' + json.dumps(out))
        return
    # results with orbital-energy denominators are not expanded: the target
    # indices can not be found by counting -> provide them
    spin_model = False
    has_ops = False
    if tg == '__spin_i3a3':
        tgl = get_symbols(['i3', 'a3'], 'aa')
        spin_model = True
    elif tg == '__spin_iajb':
        tgl = get_symbols('iajb', 'aaaa')
        spin_model = True
    elif tg.startswith('__ops_'):
        tgl = get_symbols(tg[6:])
        has_ops = True
    else:
        tgl = get_symbols(tg) if tg else None
    E = Expr(r, real=real, target_idx=tgl)
    # every summation index of a result occurs at most twice per term (counted
    # with exponents): factors that wrongly share contracted indices show up as 4
    tset = set(tgl or [])
    from sympy import Mul as _Mul, Pow as _Pow, Add as _Add
    for t_ in tm.terms_of(E.sympy.expand()):
        # orbital-energy denominators / brackets repeat the indices of the
        # tensors by design: only the tensor and operator factors are counted
        oe = names.get('orb_energy', 'e')

        from adcgen import tensor_names as _tn

        def is_energy(f_):
            # orbital energies and symbolic denominators (tensor form of a
            # denominator) repeat indices of the other tensors by design
            b_ = f_.args[0] if isinstance(f_, _Pow) else f_
            nm_ = getattr(b_, 'name', None)
            return (nm_ == oe and len(getattr(b_, 'indices', ())) == 1) or \
                nm_ == _tn.sym_orb_denom
        facs = [f_ for f_ in (t_.args if isinstance(t_, _Mul) else (t_,))
                if not (isinstance(f_, _Add) or is_energy(f_) or (
                    isinstance(f_, _Pow) and (isinstance(f_.args[0], _Add)
                                              or f_.args[1].is_negative)))]
        cnt = tm.count_indices(_Mul(*facs)) if facs else {}
        bad = [s_ for s_, n_ in cnt.items() if n_ > 2 and s_ not in tset]
        if bad:
            clash.append(f'result of {request}: index {bad[0]} occurs '
                         f'{cnt[bad[0]]} times in the term {t_}')
            break
    out['clashes'] = clash[:3]
    E = E.substitute_contracted()
    out['text'] = str(E)
    out['terms'] = len(E)
    if has_ops:
        out['value'] = None
        out['term_values'] = []
        print('JSON' + json.dumps(out))
        return
    # value fingerprints on fixed models (names mapped for other configs)
    alias = dict(names.get('alias', {}))
    if real or True:
        alias.update({k + 'cc': v + 'cc' for k, v in list(alias.items())
                      if k[-1:].isdigit()})
    targets = list(tgl) if tgl else []
    vals = []
    tvals = []
    for p in tm.PRIMES[:2]:
        model = tm.Model(4 if spin_model else 2, 4 if spin_model else 2,
                         seed=4242, p=p, alias=alias, spin=spin_model,
                         sym={'V': 1, 'f': 1} if real else {},
                         names={'orb_energy': names.get('orb_energy', 'e')})
        ev = tm.Evaluator(model)
        try:
            v = ev.value(E.sympy, targets)
            vals.append(hashlib.sha256(v.tobytes()).hexdigest()[:16])
            tv = sorted(hashlib.sha256(ev.value(t, targets).tobytes())
                        .hexdigest()[:12] for t in tm.terms_of(E.sympy.expand()))
            tvals.append(tv)
        except tm.ModelUnusable:
            vals.append('unusable')
            tvals.append([])
    out['value'] = vals
    out['term_values'] = tvals
    print('JSON' + json.dumps(out))


if __name__ == '__main__':
    main()
