"""Explicit intermediate state representation as power series in lambda over F_p.

Built from excitation operators acting on the normalised perturbed ground state,
Gram-Schmidt against the ground state (pp only) and the lower excitation classes,
symmetric orthonormalisation S^(-1/2) = sum_k binom(-1/2, k) (S - 1)^k.
All in determinant space (vlib.fock); no adcgen code is involved.
"""
import itertools
import math
from fractions import Fraction

from .fock import Series, perm_parity

MIN_SPACE = {'pp': 'ph', 'ip': 'h', 'ea': 'p', 'dip': 'hh', 'dea': 'pp'}


def spaces_upto(variant, nclasses):
    sp = [MIN_SPACE[variant]]
    for _ in range(nclasses - 1):
        sp.append('p' + sp[-1] + 'h')
    return sp


def g_of(space):
    return math.factorial(space.count('h')) * math.factorial(space.count('p'))


class ISR:
    def __init__(self, rspt, variant, nmax, nclasses=2):
        """rspt: vlib.fock.RSPT (MP, order >= nmax)"""
        self.r = rspt
        self.fs = fs = rspt.fs
        self.ham = rspt.ham
        self.p = fs.p
        self.variant = variant
        self.nmax = nmax
        self.S = S = Series(fs, nmax)
        psi = [dict(v) for v in rspt.psi[:nmax + 1]]
        while len(psi) < nmax + 1:
            psi.append({})
        self.psi_unnorm = psi
        self.E = list(rspt.E[:nmax + 1]) + [0] * (nmax + 1 - len(rspt.E))
        s0 = S.dot(psi, psi)
        x = list(s0)
        x[0] = 0
        self.norm = s0
        self.psi0 = S.vec_times_scalar(psi, S.spow(x, Fraction(-1, 2)))
        self.spaces = spaces_upto(variant, nclasses)
        self.states = {}
        self.precursor = {}
        self.Spre = {}
        for k, sp in enumerate(self.spaces):
            self._build_class(sp, self.spaces[:k])

    # -- construction ---------------------------------------------------------
    def class_ops(self, space):
        fs = self.fs
        nv_, no_ = space.count('p'), space.count('h')
        out = []
        for vs in itertools.combinations(fs.virt, nv_):
            for os_ in itertools.combinations(fs.occ, no_):
                out.append(((vs, os_), [('c', a) for a in vs]
                            + [('a', i) for i in os_]))
        return out

    def _build_class(self, space, lower):
        S, p, nmax = self.S, self.p, self.nmax
        pre = {}
        for lab, o in self.class_ops(space):
            st = S.apply_ops(o, self.psi0)
            if self.variant == 'pp':
                ov = S.dot(self.psi0, st)
                st = S.vadd(st, S.vec_times_scalar(self.psi0, ov), p - 1)
            for lsp in lower:
                for lst in self.states[lsp].values():
                    ov = S.dot(lst, st)
                    st = S.vadd(st, S.vec_times_scalar(lst, ov), p - 1)
            pre[lab] = st
        labs = list(pre)
        n = len(labs)
        Smat = [[S.dot(pre[a], pre[b]) for b in labs] for a in labs]
        for a in range(n):
            for b in range(n):
                assert Smat[a][b][0] == (1 if a == b else 0)

        def mat_mul(A, B):
            C = [[[0] * (nmax + 1) for _ in range(n)] for _ in range(n)]
            for a in range(n):
                for c in range(n):
                    if not any(A[a][c]):
                        continue
                    for b in range(n):
                        if not any(B[c][b]):
                            continue
                        pr = S.smul(A[a][c], B[c][b])
                        C[a][b] = [(u + v) % p for u, v in zip(C[a][b], pr)]
            return C
        X = [[list(Smat[a][b]) for b in range(n)] for a in range(n)]
        for a in range(n):
            X[a][a][0] = 0
        R = [[[1 if (a == b and k == 0) else 0 for k in range(nmax + 1)]
              for b in range(n)] for a in range(n)]
        term = [[list(R[a][b]) for b in range(n)] for a in range(n)]
        coef = Fraction(1)
        # X starts at order >= 1 (in fact >= 2): X^k contributes from order k on
        for k in range(1, nmax + 1):
            term = mat_mul(term, X)
            if not any(any(any(e) for e in row) for row in term):
                break
            coef = coef * (Fraction(-1, 2) - (k - 1)) / k
            c = self.fs.frac(coef)
            for a in range(n):
                for b in range(n):
                    R[a][b] = [(u + c * v) % p
                               for u, v in zip(R[a][b], term[a][b])]
        states = {}
        for bi, b in enumerate(labs):
            st = S.vzero()
            for ai, a in enumerate(labs):
                if any(R[ai][bi]):
                    st = S.vadd(st, S.vec_times_scalar(pre[a], R[ai][bi]))
            states[b] = st
        self.states[space] = states
        self.precursor[space] = pre
        self.Spre[space] = {(labs[a], labs[b]): Smat[a][b]
                            for a in range(n) for b in range(n)}

    # -- states for arbitrary orbital tuples ------------------------------------
    def _signed(self, table, space, vs, os_):
        if len(set(vs)) < len(vs) or len(set(os_)) < len(os_):
            return self.S.vzero()
        sg = perm_parity(vs) * perm_parity(os_)
        st = table[space][(tuple(sorted(vs)), tuple(sorted(os_)))]
        return [self.fs.vscale(v, sg % self.p) for v in st]

    def state(self, space, vs, os_):
        """intermediate state |I> for virtual orbitals vs and occupied orbitals os_
        (any order / repeated): +- the restricted one or zero."""
        return self._signed(self.states, space, vs, os_)

    def precursor_state(self, space, vs, os_):
        return self._signed(self.precursor, space, vs, os_)

    # -- matrix elements ----------------------------------------------------------
    def apply_Hlambda(self, vs):
        """(H0 + lambda H1)|vs>"""
        S, nmax = self.S, self.nmax
        out = S.vzero()
        for k in range(nmax + 1):
            if not vs[k]:
                continue
            out[k] = self.fs.vadd(out[k], self.ham.H0(vs[k]))
            if k + 1 <= nmax:
                out[k + 1] = self.fs.vadd(out[k + 1], self.ham.H1(vs[k]))
        return out

    def M_elem(self, bra, ket, subtract_gs=True):
        """series of <bra|H - E0|ket> (bra, ket: state series)"""
        S = self.S
        m = S.dot(bra, self.apply_Hlambda(ket))
        if not subtract_gs:
            return m
        ov = S.dot(bra, ket)
        sub = S.smul(self.E, ov)
        return [(a - b) % self.p for a, b in zip(m, sub)]

    def apply_operator(self, vs, coeff, n_create, n_annihilate):
        """1/(n_c! n_a!) sum d^{p..}_{q..} p+.. q..(reversed) on a vector series"""
        pref = self.fs.inv(math.factorial(n_create)
                           * math.factorial(n_annihilate))
        return [self.fs.apply_general(v, coeff, n_create, n_annihilate, pref)
                if v else {} for v in vs]
