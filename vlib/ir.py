"""Plain-data IR of inputs (serialisable, replayable) and its translation into
adcgen objects through adcgen's *public constructors* only.

index  : "i" | "a2" | "p" | "i:a" (name[:spin])
object : {"t": "anti"|"sym"|"amp"|"non"|"delta"|"sym0"(plain Symbol)|"c"|"a",
          "name": str, "up": [index], "lo": [index], "bk": 0|1|-1, "exp": int}
bracket: {"t": "br", "e": [[coef_str, index], ...], "exp": int}   (sum c_k e_k)^exp
term   : {"pref": str (sympy expression of numbers), "objs": [object|bracket]}
expr   : [term, ...]

The independent operations of the monitors (simultaneous substitution, alpha
renaming, orbit enumeration, block classification) act on this IR.
"""
import copy

from sympy import S, Mul, Add, Pow, Symbol, sympify, Rational, sqrt  # noqa


def split_index(s):
    if ':' in s:
        n, sp = s.split(':')
        return n, sp
    return s, ''


def index_space(name):
    c = name[0]
    if c in 'ijklmno':
        return 'occ'
    if c in 'abcdefgh':
        return 'virt'
    if c in 'pqrstuvw':
        return 'general'
    raise ValueError(name)


_LOCAL = {}
FACTORY_CHECKS = [0]


def mk_index(s, fresh=None):
    """Index through the library's registry (get_symbols); `fresh` maps a label
    to an un-registered Index (for 'same name, distinct object' cases)."""
    from adcgen.indices import get_symbols
    if fresh is not None and s in fresh:
        return fresh[s]
    n, sp = split_index(s)
    if n.endswith("'"):
        # primed label: a second, distinct Index object with the same name
        key = (n, sp)
        if key not in _LOCAL:
            from adcgen.indices import Index
            base = n.rstrip("'")
            kw = {}
            space = index_space(base)
            if space == 'occ':
                kw['below_fermi'] = True
            elif space == 'virt':
                kw['above_fermi'] = True
            if sp == 'a':
                kw['alpha'] = True
            elif sp == 'b':
                kw['beta'] = True
            _LOCAL[key] = Index(base, **kw)
        return _LOCAL[key]
    idx = get_symbols([n], [sp] if sp else None)[0] if sp else \
        get_symbols([n])[0]
    # post-condition of the index registry: the object handed out carries the
    # requested name, the space of its letter and the requested spin (every
    # oracle below reads these attributes from the library's own object)
    FACTORY_CHECKS[0] += 1
    if idx.name != n or idx.space != index_space(n) or idx.spin != sp:
        from .common import MonitorViolation
        raise MonitorViolation(
            f'index registry: get_symbols({n!r}, {sp!r}) returned an Index with '
            f'name={idx.name!r} space={idx.space!r} spin={idx.spin!r} '
            f'(requested space {index_space(n)!r}, spin {sp!r})')
    return idx


def mk_indices(lst, fresh=None):
    return tuple(mk_index(s, fresh) for s in lst)


def mk_obj(o, fresh=None):
    from adcgen.sympy_objects import (AntiSymmetricTensor, SymmetricTensor,
                                      Amplitude, NonSymmetricTensor,
                                      KroneckerDelta)
    from sympy.physics.secondquant import F, Fd
    t = o['t']
    ex = o.get('exp', 1)
    if t == 'br':
        from adcgen.tensor_names import tensor_names
        # entries [coef, index] (tensor name of the bracket) or
        # [coef, index, name] (a bracket that mixes one-index tensors)
        base = Add(*[sympify(en[0]) * NonSymmetricTensor(
            en[2] if len(en) > 2 else o.get('name', tensor_names.orb_energy),
            (mk_index(en[1], fresh),)) for en in o['e']])
        return Pow(base, ex)
    if t == 'sym0':
        base = Symbol(o['name'])
    elif t == 'delta':
        base = KroneckerDelta(*mk_indices(o['up'], fresh))
    elif t == 'non':
        base = NonSymmetricTensor(o['name'], mk_indices(o['up'], fresh))
    elif t == 'c':
        base = Fd(mk_index(o['up'][0], fresh))
    elif t == 'a':
        base = F(mk_index(o['up'][0], fresh))
    else:
        cls = {'anti': AntiSymmetricTensor, 'sym': SymmetricTensor,
               'amp': Amplitude}[t]
        base = cls(o['name'], mk_indices(o['up'], fresh),
                   mk_indices(o['lo'], fresh), o.get('bk', 0))
    return base if ex == 1 else Pow(base, ex)


def mk_term(term, fresh=None):
    res = sympify(term.get('pref', '1'))
    for o in term['objs']:
        res = res * mk_obj(o, fresh)
    return res


def mk_expr(terms, fresh=None):
    return Add(*[mk_term(t, fresh) for t in terms])


def obj_index_list(o):
    if o['t'] == 'br':
        return [en[1] for en in o['e']]
    return list(o.get('up', [])) + list(o.get('lo', []))


def term_indices(term):
    """[(index, multiplicity)] with |exp| multiplicity, in order of appearance"""
    cnt = {}
    for o in term['objs']:
        m = abs(o.get('exp', 1))
        for s in obj_index_list(o):
            cnt[s] = cnt.get(s, 0) + m
    return cnt


def term_targets(term):
    return [s for s, n in term_indices(term).items() if n == 1]


def rename_term(term, mapping):
    """simultaneous substitution on the IR"""
    t = copy.deepcopy(term)
    for o in t['objs']:
        if o['t'] == 'br':
            o['e'] = [[en[0], mapping.get(en[1], en[1])] + list(en[2:])
                      for en in o['e']]
        else:
            if 'up' in o:
                o['up'] = [mapping.get(s, s) for s in o['up']]
            if 'lo' in o:
                o['lo'] = [mapping.get(s, s) for s in o['lo']]
    return t


NAMES = {'occ': 'ijklmno', 'virt': 'abcdefgh', 'general': 'pqrstuvw'}


def name_sequence(space, start=0):
    """i, j, ..., o, i1, j1, ... (the documented order of index names)"""
    n = start
    base = NAMES[space]
    while True:
        k, c = divmod(n, len(base))
        yield base[c] + (str(k) if k else '')
        n += 1
