#!/usr/bin/env python3
"""Confirm a seeded fault (patch + demonstration) in a scratch worktree and run the
property's check against it.

  tools/seedcheck.py <src_dir> <property> [--no-pytest] [--tier quick]

src_dir holds patch.diff, demo.py, meta.json. Steps: fresh worktree of /repo HEAD
under /tmp -> demo must exit 0 -> git apply -> demo must exit != 0 -> the
repository's test suite must pass -> ./check <property> with VERIF_REPO pointing to
the worktree (evidence/replays redirected to a temp copy of /verif's tree is not
needed: the check writes evidence/<ID>.json, which is restored afterwards).
Writes <src_dir>/confirm.json and removes the worktree."""
import json
import os
import shutil
import subprocess
import sys
import tempfile
import time

ROOT = os.path.dirname(os.path.dirname(os.path.abspath(__file__)))


def sh(cmd, cwd=None, env=None, timeout=3600):
    t0 = time.time()
    try:
        r = subprocess.run(cmd, cwd=cwd, env=env, capture_output=True, text=True,
                           timeout=timeout)
        return r.returncode, (r.stdout + r.stderr)[-3000:], time.time() - t0
    except subprocess.TimeoutExpired:
        return -9, 'timeout', time.time() - t0


def main():
    src = os.path.abspath(sys.argv[1])
    prop = sys.argv[2]
    do_pytest = '--no-pytest' not in sys.argv
    tier = 'quick'
    if '--tier' in sys.argv:
        tier = sys.argv[sys.argv.index('--tier') + 1]
    wt = tempfile.mkdtemp(prefix='seedwt_')
    os.rmdir(wt)
    out = {'property': prop, 'src': src}
    try:
        rc, o, _ = sh(['git', '-C', '/repo', 'worktree', 'add', '-q', '--detach',
                       wt, 'HEAD'])
        assert rc == 0, o
        env = dict(os.environ, PYTHONPATH=wt)
        demo = os.path.join(src, 'demo.py')
        rc, o, t = sh(['/venv/bin/python', demo], cwd=wt, env=env, timeout=900)
        out['demo_clean'] = {'rc': rc, 'wall': round(t, 1), 'tail': o[-400:]}
        rc, o, _ = sh(['git', 'apply', os.path.join(src, 'patch.diff')], cwd=wt)
        out['apply'] = {'rc': rc, 'tail': o[-400:]}
        if rc == 0:
            rc, o, t = sh(['/venv/bin/python', demo], cwd=wt, env=env,
                          timeout=900)
            out['demo_patched'] = {'rc': rc, 'wall': round(t, 1),
                                   'tail': o[-600:]}
            if do_pytest:
                rc, o, t = sh(['/venv/bin/python', '-m', 'pytest', '-q', '-p',
                               'no:cacheprovider', '--timeout=900', '-x', '-n',
                               '4'], cwd=wt, env=env, timeout=3000)
                out['pytest_patched'] = {'rc': rc, 'wall': round(t, 1),
                                         'tail': o[-300:]}
                with open(os.path.join(src, 'pytest.json'), 'w') as f:
                    json.dump(out['pytest_patched'], f)
            # run the check against the patched tree (a run with VERIF_REPO set
            # writes evidence/<ID>.partial.json, never the evidence file)
            seeds = ['0']
            if '--seeds' in sys.argv:
                seeds = sys.argv[sys.argv.index('--seeds') + 1].split(',')
            per_seed = {}
            for sd in seeds:
                env2 = dict(os.environ, VERIF_REPO=wt, VERIF_SEED=sd)
                rc, o, t = sh([os.path.join(ROOT, 'check'), prop, '--tier',
                               tier], cwd=ROOT, env=env2, timeout=7200)
                lines = [ln for ln in o.splitlines()
                         if ln.startswith(('VIOLATION', 'INCONCLUSIVE', 'KNOWN',
                                           '  w'))]
                per_seed[sd] = {'rc': rc, 'wall': round(t, 1),
                                'n_violation_lines': sum(
                                    ln.startswith('VIOLATION') for ln in lines),
                                'lines': lines[:6]}
            first = per_seed[seeds[0]]
            out['check'] = {'rc': 1 if all(v['rc'] == 1 for v in
                                           per_seed.values()) else
                            first['rc'] if len(seeds) == 1 else 0,
                            'wall': first['wall'], 'tier': tier,
                            'n_violation_lines': first['n_violation_lines'],
                            'lines': first['lines'],
                            'seeds': {sd: v['rc'] for sd, v in per_seed.items()}}
        pj = os.path.join(src, 'pytest.json')
        if 'pytest_patched' not in out and os.path.exists(pj):
            out['pytest_patched'] = json.load(open(pj))
            do_pytest = True
        out['confirmed'] = bool(
            out.get('demo_clean', {}).get('rc') == 0 and
            out.get('demo_patched', {}).get('rc', 0) != 0 and
            (not do_pytest or out.get('pytest_patched', {}).get('rc') == 0))
        out['caught'] = out.get('check', {}).get('rc') == 1
    finally:
        sh(['git', '-C', '/repo', 'worktree', 'remove', '--force', wt])
        shutil.rmtree(wt, ignore_errors=True)
    with open(os.path.join(src, 'confirm.json'), 'w') as f:
        json.dump(out, f, indent=1)
    print(json.dumps({k: out.get(k) for k in ('src', 'confirmed', 'caught')}),
          out.get('check', {}).get('lines', [])[:2])


if __name__ == '__main__':
    main()
