#!/usr/bin/env python3
"""Copy a confirmed seeded fault into /verif/seeded/<name>/ (patch.diff, demo.py,
meta.json augmented with what was run here and which check caught it)."""
import json
import os
import shutil
import sys

ROOT = os.path.dirname(os.path.dirname(os.path.abspath(__file__)))
src, name = sys.argv[1], sys.argv[2]
conf = json.load(open(os.path.join(src, 'confirm.json')))
assert conf['confirmed'], 'not confirmed'
dst = os.path.join(ROOT, 'seeded', name)
os.makedirs(dst, exist_ok=True)
for f in ('patch.diff', 'demo.py'):
    shutil.copy(os.path.join(src, f), os.path.join(dst, f))
meta = json.load(open(os.path.join(src, 'meta.json')))
meta['confirmed_here'] = {
    'demo_on_clean_tree_rc': conf['demo_clean']['rc'],
    'demo_with_patch_rc': conf['demo_patched']['rc'],
    'repository_tests_with_patch': conf.get('pytest_patched', {}).get('tail', '')[-120:],
    'check_run': f"VERIF_REPO=<worktree with patch> ./check {conf['property']} --tier {conf['check']['tier']}",
    'check_exit': conf['check']['rc'],
    'check_caught': conf['caught'],
    'check_lines': conf['check']['lines'][:3],
    'check_seeds': conf['check'].get('seeds'),
}
if len(sys.argv) > 3:
    meta['confirmed_here']['note'] = sys.argv[3]
json.dump(meta, open(os.path.join(dst, 'meta.json'), 'w'), indent=1)
print('kept', dst, 'caught' if conf['caught'] else 'MISSED')
