#!/usr/bin/env python3
"""(Re)generates MANIFEST.json from the table below and validates it."""
import json
import os
import subprocess
import sys

ROOT = os.path.dirname(os.path.dirname(os.path.abspath(__file__)))

CHECKS = {
 'C01': dict(
    technique="runtime monitor: reference-model oracle (brute-force determinant-space vacuum expectation value + F_p tensor model) on every generated wicks call and on internal wicks calls of real derivations (post-condition hook on adcgen.func.wicks)",
    category='exploration', design='4/C01',
    text="Every generated operator product (2-10 operators, occ/virt/general indices, NO groups, coefficient tensors, rule sets) and the internal wicks calls of real derivations are compared on every orbital assignment of small model spaces with <Phi0|string|Phi0> computed from a+/a acting on bit-mask determinants. Held-on-observed: says nothing about strings longer than 10 operators or shapes the generator does not produce.",
    note="Trusted: numpy int64 einsum, sympy expand/args, the ~150-line Fock-space code (vlib/fock.py), sympy's F/Fd/NO constructors; F_p arithmetic as image of Q (second prime on disagreement)."),
 'C02': dict(
    technique="runtime monitor: reference-model oracle - library expressions evaluated in a tensor model whose amplitudes are explicit determinant-space RSPT coefficients, compared with the RSPT numbers (energies, amplitudes, residuals + sensitivity probe, expectation values)",
    category='exploration', design='4/C02',
    text="mp and re partitioning, first-order singles on/off (MP reference with free, non-zero first-order singles injected into the explicit RSPT recursion), energies through order 3 (4 thorough), amplitude classes singles..quadruples, 1- and 2-particle expectation values, fresh and cache-warmed GroundState objects; every request compared on all index assignments of model spaces up to (4,4). Residual checks are guarded by a sensitivity probe (perturbed amplitudes must give a non-zero residual). The Taylor series of the norm factor (expand_norm_factor for min_order 1-3, norm_factor on symbolic overlaps) through order 9 (12 thorough) and every observed gen_term_orders call (post-condition hook) are compared with an independently written inverse power series / enumeration of compositions.",
    note="Trusted: vlib/fock.py RSPT (Gaussian elimination over F_p), TM evaluator, real model Hamiltonians (tNcc = tN). RE order-2 quadruples residual is out of bounds (> 25 min derivation)."),
 'C03': dict(
    technique="runtime monitor: reference-model oracle - explicit intermediate-state power series in determinant space (Gram-Schmidt + S^-1/2 series) vs. the library's secular-matrix blocks, precursor blocks, matrix-vector products and block-order tables",
    category='exploration', design='4/C03',
    text="All five ADC variants, first two excitation classes, diagonal and coupling blocks through ADC(2) in the quick tier and ADC(3) in the thorough tier, subtract_gs on/off (also both values on one SecularMatrix instance), first_order_singles=True cases, MVPs with the documented normalisation, compared on every bra/ket orbital assignment; truncation tables compared with the ADC(n) definition for n <= 6.",
    note="Trusted: vlib/isr.py, vlib/fock.py, TM; MP partitioning only (as the property states); third-class blocks and orders >= 4 out of bounds."),
 'C04': dict(
    technique="runtime monitor: value oracle with random amplitude tensors over F_p (Schwartz-Zippel) on overlap_isr / overlap_precursor results; antisymmetrised delta computed from orbital tuples",
    category='exploration', design='4/C04',
    text="5 variants x class pairs (1,1),(1,2),(2,1),(2,2) x orders 0-2 (3 thorough) x mp/re x singles on/off, real and complex-style amplitude models, every orbital assignment; precursor overlap symmetry.",
    note="Trusted: TM evaluator; random F_p amplitudes stand for all amplitude values (error probability ~ degree/p per point)."),
 'C05': dict(
    technique="runtime monitor: reference-model oracle - explicit <I|D-<D>|J> and <I|D|Psi0> series between explicitly built intermediate states contracted with random X, Y, d, vs. expec_block_contribution / trans_moment_space / their ADC(n) sums",
    category='exploration', design='4/C05',
    text="pp/ip/ea (dip/dea at low order) blocks through ADC(2), 1-particle operators (2-particle thorough), default operator strings per variant, subtract_gs on/off (both orders on one instance), first_order_singles=True cases, ADC(n) sums (1- and 2-particle) against the block-order definition.",
    note="Trusted: vlib/isr.py apply_operator, the reading of the documented normalisation (validated on all blocks)."),
 'C07': dict(
    technique="runtime monitor: value oracle (F_p tensor model) + alpha-equivalence completeness oracle on direct simplify calls; icontract post-condition on adcgen.simplify.simplify for the internal calls of real derivations",
    category='exploration', design='4/C07',
    text="~860 generated sums per quick run (alpha-renamed copies built on the IR by injective renaming + declared-symmetry slot permutations), real/complex assumptions, explicit/Einstein targets, spin labels; value on every target assignment, term count, assumptions, and merging of c*T + c'*rho(T) into <= 1 term; every internal simplify call of 4-6 derivation pipelines.",
    note="Trusted: TM evaluator and its Einstein rule; generator covers tensors up to rank (2,2)/(3,0), <= 5 objects per term."),
 'C09': dict(
    technique="runtime monitor: value oracle (F_p tensor model incl. spin-structured domains, operators replaced by positional stand-ins) + information-rule checker over the delta-connected components, on direct calls and as post-condition hook on every internal evaluate_deltas call (recursion-aware monitor.ensure)",
    category='exploration', design='4/C09',
    text="~850 generated terms per quick run with 1-4 deltas (chains/stars over occ/virt/general/spin-labelled indices, operators), explicit or Einstein targets, precondition of the property checked first; ~1500 internal calls of five derivation pipelines.",
    note="Trusted: TM evaluator; object-count target rule re-implemented as documented."),
 'C20': dict(
    technique="runtime monitor: value oracle with U a Cayley-orthogonal block matrix over F_p on every generated simplify_unitary call",
    category='exploration', design='4/C20',
    text="600 generated products per quick run (2-6 U incl. powers, structured pairs sharing an index that is contracted-only / also on a third object / a target, denominators, 1-2 terms, explicit or Einstein targets fixed by the input, evaluate_deltas on/off, closed rings, earlier calls with other target sets in the same process).",
    note="Trusted: Cayley transform + modular inverse (orthogonality asserted at run time), TM evaluator. Which indices are targets is fixed by the input (explicitly or by the summation convention on the input term)."),
 'C13': dict(
    technique="runtime monitor: value oracle (F_p tensor model with orbital energies, symbolic denominator D := 1/(sum e_upper - sum e_lower), diagonal / block-diagonal Fock models) on every fraction-algebra operation of generated terms",
    category='exploration', design='4/C13',
    text="~600 generated inputs per quick run, ~2400 operations (split+recombine, canonicalize_sign, permute_num, cancel_orb_energy_frac, symbolic<->explicit denominators, factor_eri_parts, factor_denom, diagonalize_fock, block_diagonalize_fock) compared on all target assignments; documented refusals counted per operation.",
    note="Trusted: TM evaluator incl. element-wise modular inversion of brackets; real orbital basis."),
 'C06': dict(
    technique="runtime monitor: brute-force orbit oracle on the public tensor constructors (construction and subs), forced-zero and non-identification probes, assumption-step contracts (idempotence, untouched names, TM value), and a history monitor hooked on the tensor classes' __new__ during real derivations; post-condition on every index handed out by the registry (name, space, spin as requested)",
    category='exploration', design='4/C06',
    text="~900 tuples x whole orbit (~7000 constructed elements) per quick run over pools mixing spaces, spins, numbered names, repeated indices and same-name distinct Index objects; 90 delta cases; 200 assumption cases; ~1100 monitored constructions of three derivation pipelines.",
    note="Trusted: sympy structural identity (a - s*b is S.Zero). A consistent but different tie-break order in the bra-ket canonicalisation is not a violation (identification is what the property states)."),
 'C08': dict(
    technique="runtime monitor: IR reference model (simultaneous substitution / sequential transpositions rebuilt through the constructors), lowest-name and fresh-generic-name oracles with TM value check, and an offline checker over the event log of hooked Indices.get_indices / get_generic_indices requests",
    category='exploration', design='4/C08',
    text="~320 index maps (chains, cycles, chains into cycles, many-to-one, identities, mixed spaces/spins), 160 permutation sequences, ~290 renaming cases (targets colliding with low names, spins, numbered names, chains needing numbered name generations, declared twice-index targets, Term objects held across set_target_idx), the helpers get_lowest_avail_indices / minimize_tensor_indices against their documented rules and 6 registry histories of 50-500 interleaved requests (~1900 logged events) per quick run.",
    note="Trusted: IR substitution code (20 lines), name_sequence re-implementation of the documented name order."),
 'C10': dict(
    technique="runtime monitor: pointwise value oracle (axis transposition of the term's F_p value array) on every reported symmetry; reconstruction oracle for exploit_perm_sym parts; key recomputation + part-sum oracle for sort.by_* / filter_tensor; LazyTermMap entry oracle",
    category='exploration', design='4/C10',
    text="~390 Term/Obj.symmetry calls (all / only_contracted / only_target, denominators, bra-ket symmetries, exponents), ~130 exploit_perm_sym (incl. partial orbits with explicit denominators over targets) and ~40 LazyTermMap cases (incl. cyclic orbits of three targets) on (anti)symmetrised expressions, 110 multi-term expressions through all five sort.by_* functions and filter_tensor (880 calls) per quick run, plus the ADC(2) ph/ph matrix and MP2 density of the repository's tests.",
    note="Trusted: TM evaluator, numpy swapaxes composition. Terms for the unrestricted symmetry mode keep <= 4 index occurrences per (space, spin): the library's enumeration is factorial."),
 'C16': dict(
    technique="runtime monitor: offline checker over the returned contraction scheme (exactly-once use of operands and inner results, index conservation, limits, recomputed scaling) + step-by-step execution on F_p tensor-model arrays",
    category='exploration', design='4/C16',
    text="~400 generated terms per quick run (1-6 objects, exponents, traces, outer products, disconnected groups, hyper-contractions, deltas, symbols, shuffled target orders, spin-labelled targets, all limit settings incl. infeasible ones, earlier calls with another target order in the same process); optimize_contractions and unoptimized_contraction audited and executed.",
    note="Trusted: TM evaluator; operands matched to the term's objects by index tuple. Only the computational part of 'maximal scaling never worse than the single simultaneous contraction' is checked (an inner result may legitimately need more memory than the final result)."),
 'C17': dict(
    technique="runtime monitor / translation validation: every emitted program (einsum and libtensor syntax) is parsed and executed by an independent interpreter (vlib/codeinterp.py) on F_p tensor-model blocks and compared with the TM value of the source expression",
    category='translation_validation', design='4/C17',
    text="~450 expressions per quick run -> ~500 emitted contraction lines (programs), both backends, optimised and unoptimised schemes, limits, target strings with/without ',', bra-ket symmetry, (anti)symmetric result tensor, permutation operators applied as axis transpositions with the printed signs.",
    note="Trusted: the interpreter (~350 lines) and its reverse naming table; index strings tokenised letter+digits. Square-root prefactors are refused by the library under sympy >= 1.13 (NotImplementedError) and therefore only counted."),
 'C18': dict(
    technique="runtime monitor: print -> import -> re-apply-assumptions round-trip checker (TM value on all target assignments, structural equality for operator strings, tensor class per name, re-printed text) on generated expressions and on outputs of real derivations",
    category='exploration', design='4/C18',
    text="~420 generated expanded expressions per quick run over every tensor kind the library produces, deltas, spin-labelled and numbered indices, orbital-energy fractions with powers (expanded denominators), rational/sqrt prefactors, operators and NO groups; 7 derivation pipelines (raw and after substitute_contracted).",
    note="Plain sympy Symbols are not in the property's list and are not generated (greek names are LaTeX-translated by sympy's printer). Trusted: TM evaluator."),
 'C14': dict(
    technique="runtime monitor: restoration oracle (weighted re-contraction of the returned block expressions with minimal-name tensor blocks on the F_p tensor model), block-symmetry check on the value array, and finite-difference oracle (E(T + eps dT) at k+1 points, Lagrange interpolation in F_p) for derivative",
    category='exploration', design='4/C14',
    text="~250 remove_tensor and ~100 derivative cases per quick run: ranks (1,1),(2,2),(2,1),(3,0),(2,0) (quick) and (3,3) (thorough), bra-ket symmetry 0/+1/-1, ADC amplitude vectors (pp and ip/ea shapes), tensors occurring once, twice or squared, carrying target or repeated indices (remove_tensor), 1-2 term expressions, explicit or Einstein targets.",
    note="Derivative cases keep all indices of the differentiated tensor contracted (the property defines the derivative through the full contraction with a variation). For multi-occurrence keys every assignment of key blocks to removal order is tried (the sorted key does not record it). Trusted: the reading of the documented normalisation (DESIGN 4/C14)."),
 'C15': dict(
    technique="runtime monitor: spin-structured reference model (spin orbital = spatial function x spin; V antisymmetrised from a Coulomb array with spin deltas; spin-conserving amplitudes; spin-diagonal f) evaluated on the requested spin block vs. the spin-integrated output; forbidden-block oracle for allowed_spin_blocks",
    category='exploration', design='4/C15',
    text="~170 generated expressions x up to 6 target spin strings x expand_eri on/off (about 1200 integrations per quick run), restricted reference checked in a model whose alpha and beta tensors coincide (about 500 per run), expression-level allowed_spin_blocks (every unreported block must be zero), registered intermediates and the MP2 energy / density pipelines.",
    note="Trusted: TM evaluator with spin-labelled domains. Every term holds >= 1 object of known spin structure; explicit orbital-energy denominators are passed as symbolic denominators (the library's simplify refuses polynoms)."),
 'C12': dict(
    technique="runtime monitor: reference-model oracle per registered intermediate - explicit RSPT amplitudes and one-particle density series (determinant space), residuals derived by the library's own RE ground state on random amplitudes, independently written einsum contractions; axis-transposition check of declared symmetries and forbidden-spin-block check on a spin-structured model",
    category='exploration', design='4/C12',
    text="all 25 registered intermediates x {fully, once} expanded x default and renamed index tuples (names colliding with the definitions' internal names, numbered names) on (2,2)-(3,3) models (t4_2 on (4,4) in the thorough tier): ~140 definition checks, ~630 declared symmetries and ~370 forbidden spin blocks per quick run.",
    note="Trusted: vlib/fock.py RSPT and density series; the einsum transcriptions of t2eri_1..7, A, B, t2sq."),
 'C11': dict(
    technique="runtime monitor: definitional tensor model (every intermediate tensor carries the F_p value of its registered definition) as value oracle across expand_intermediates / factor_intermediates / reduce_expr, incl. expand(factor(.)) = identity",
    category='exploration', design='4/C11',
    text="~310 generated expressions per quick run over 15 registered intermediates (900 thorough, 36 of them with third-order intermediates): (intermediate tensor x free tensor) combinations, fully/once expanded, perturbed expansions (prefactor changed -> mixed-prefactor path, term dropped -> incomplete), extra denominators over the intermediate's indices, the same intermediate twice in a term, pairs differing in the left-over denominator only, implicit-target expansions, random subsets / types / max_order requests; the repository's factor-test expressions; the ADC(2) ph/ph reduce+factor pipeline of the example script (thorough).",
    note="Trusted: TM evaluator; definitional arrays merged per (tensor name, rank). RE residual intermediates (tensor = placeholder 0) are exercised in C12, not here."),
 'C19': dict(
    technique="runtime monitor: differential execution - every request of a catalogue runs in fresh interpreter processes under several PYTHONHASHSEEDs, after random prior API-call histories and from a scratch copy of the package with another tensor_names.json; the recorded results (F_p value fingerprints under two primes, text after substitute_contracted, term counts) are compared offline; in-process hooks on GroundState.psi / norm_factor and RegisteredIntermediate.expand_itmd check that results never share contracted indices",
    category='exploration', design='4/C19',
    text="23 requests (quick; 34 thorough) x 3 hash seeds x up to 4 random histories + alternative (multi-character) name configuration = ~175 process runs per quick run; ~18000 monitored psi / norm_factor calls. Text differences whose per-term value multisets agree are classified as the open finding F6.",
    note="A defect that is the same in every run (deterministic wrong value) is invisible to this differential check; values are decided by C02-C05. Trusted: TM fingerprints."),
}

NOT_YET = {}


def main():
    props = [json.loads(l) for l in open(os.path.join(ROOT, 'properties.jsonl'))]
    ids = [p['id'] for p in props]
    try:
        hooks = subprocess.run(['git', '-C', '/repo', 'log', '--format=%h %s'],
                               capture_output=True, text=True).stdout
    except OSError:
        hooks = ''
    checks = []
    for pid in ids:
        if pid not in CHECKS:
            continue
        c = CHECKS[pid]
        checks.append({
            'property_id': pid,
            'quick_cmd': f'./check {pid} --tier quick',
            'thorough_cmd': f'./check {pid} --tier thorough',
            'evidence_file': f'evidence/{pid}.json',
            'replay_cmd_template': f'./check {pid} --replay {{path}}',
            'engine': c.get('engine', 'vlib'),
            'level_claimed': {'category': c['category'], 'text': c['text'],
                              'design_ref': c['design']},
            'level_note': c['note'],
            'technique': c['technique'],
        })
    na = [{'property_id': pid,
           'reason': NOT_YET.get(pid, 'check designed (DESIGN.md section 4) but '
                                 'not built yet in this session; not claimed')}
          for pid in ids if pid not in CHECKS]
    man = {
        'version': 1,
        'setup_cmd': './setup.sh',
        'hooks': {
            'guard': 'ADCGEN_VERIF_MONITORS',
            'enable': 'no source hooks in /repo: monitors attach from /verif by wrapping adcgen callables and rebinding their aliases (vlib/monitor.py) in worker processes started with ADCGEN_VERIF_MONITORS=1 and PYTHONPATH=/repo:/verif:/verif/.deps',
            'baseline_off_cmd': 'cd /repo && /venv/bin/python -m pytest -ra -q -p no:cacheprovider --timeout=900 --continue-on-collection-errors',
            'source_commits': [],
            'add_only': True,
        },
        'engines': [
            {'name': 'vlib', 'path': 'vlib/', 'serves_properties': [c['property_id'] for c in checks],
             'kind_free_text': 'runtime monitors: TM tensor-model evaluator over F_p (vlib/tm.py), FS determinant-space reference incl. explicit RSPT and ISR power series (vlib/fock.py, vlib/isr.py), contract/alias-rebinding monitor layer (vlib/monitor.py), sharded subprocess driver with watchdogs (vlib/harness.py)'},
        ],
        'checks': checks,
        'not_applicable': na,
        'notes': 'Technique family: runtime monitoring. Compiler sanitizers / race detectors do not apply (pure single-threaded Python, no native code). Known findings: known_findings.json. Repository repairs are the "fix:" commits in /repo, listed as fixed entries there.',
    }
    with open(os.path.join(ROOT, 'MANIFEST.json'), 'w') as f:
        json.dump(man, f, indent=1)
        f.write('\n')
    try:
        import jsonschema
        jsonschema.validate(man, json.load(open('/root/.vp/MANIFEST.schema.json')))
        print('MANIFEST valid;', len(checks), 'checks;', len(na), 'not_applicable')
    except ImportError:
        print('jsonschema not available; not validated')


if __name__ == '__main__':
    main()
