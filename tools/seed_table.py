#!/usr/bin/env python3
"""Markdown table of the seeded changes under seeded/ (optionally only those whose
number is in the given list): tools/seed_table.py 4 5"""
import json
import os
import sys

ROOT = os.path.dirname(os.path.dirname(os.path.abspath(__file__)))
only = set(sys.argv[1:])
print('| change | what it breaks | caught by | note |')
print('|---|---|---|---|')
for name in sorted(os.listdir(os.path.join(ROOT, 'seeded'))):
    pid, k = name.rsplit('-', 1)
    if only and k not in only:
        continue
    m = json.load(open(os.path.join(ROOT, 'seeded', name, 'meta.json')))
    c = m.get('confirmed_here', {})
    caught = f'`./check {pid}`' if c.get('check_caught') else '**missed**'
    if c.get('also_caught_by'):
        caught += ' / ' + c['also_caught_by']
    note = c.get('note', '')
    title = (m.get('title') or m.get('what_it_breaks', ''))[:150].replace('|', '/')
    print(f'| {name} | {title} | {caught} | {note} |')
