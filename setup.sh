#!/bin/sh
# offline setup: numpy / icontract / deal beside the repository's interpreter
here=$(cd "$(dirname "$0")" && pwd)
cd "$here" || exit 3
exec /venv/bin/python -B -c "from vlib.harness import ensure_deps; ensure_deps(); print('deps ok')"
